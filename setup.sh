#!/usr/bin/env bash
# Run once after a fresh restore, offline: warm the Go build cache for the repository and the harness.
set -u
cd "$(dirname "$0")"
export GOFLAGS=-mod=mod GOPROXY=off
unset GOSUMDB GOTOOLCHAIN 2>/dev/null || true
(cd /repo && go build ./... ) || { echo "repository does not build" >&2; exit 1; }
chmod +x ./check
exit 0
