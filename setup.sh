#!/usr/bin/env bash
# Run once after a fresh restore, offline: warm the Go build cache for the repository, the race
# runtime and the rewriting tools. Nothing is installed; every check rebuilds what it needs.
set -u
cd "$(dirname "$0")"
export GOFLAGS=-mod=mod GOPROXY=off
unset GOSUMDB GOTOOLCHAIN 2>/dev/null || true
(cd /repo && go build ./... ) || { echo "repository does not build" >&2; exit 1; }
(cd /repo && go build -race -o /dev/null ./cmd/emerge) || echo "warning: race build cache could not be warmed" >&2
(cd tools/simrewrite && go build -o /dev/null .) || { echo "simrewrite does not build" >&2; exit 1; }
(cd tools/maprange && go build -o /dev/null .) || { echo "maprange does not build (x/tools v0.29.0 must be in the module cache)" >&2; exit 1; }
chmod +x ./check tools/*.sh
exit 0
