// Package simos is the simulated operating system: an in-memory POSIX-like file system, process
// arguments, standard streams and exit, behind the slice of the "os" API emerge could plausibly
// use. In the scratch copy every import of "os" in emerge's own packages is rewritten to this
// package (import alias "os"), so the real main, command and generator run in-process against it.
// An os member this package does not model is a build error (exit 2), never a verdict.
package simos

import (
	"errors"
	"fmt"
	"io"
	"io/fs"
	realos "os"
	"path"
	"runtime"
	"runtime/debug"
	"sort"
	"strings"
	"sync"
	"sync/atomic"
	"syscall"
	"time"
)

// ---- re-exported types, constants and helpers ---------------------------------------------------

type (
	FileInfo     = fs.FileInfo
	FileMode     = fs.FileMode
	DirEntry     = fs.DirEntry
	PathError    = fs.PathError
	LinkError    = realos.LinkError
	SyscallError = realos.SyscallError
	Signal       = realos.Signal
)

const (
	O_RDONLY = realos.O_RDONLY
	O_WRONLY = realos.O_WRONLY
	O_RDWR   = realos.O_RDWR
	O_APPEND = realos.O_APPEND
	O_CREATE = realos.O_CREATE
	O_EXCL   = realos.O_EXCL
	O_SYNC   = realos.O_SYNC
	O_TRUNC  = realos.O_TRUNC

	ModePerm       = fs.ModePerm
	ModeDir        = fs.ModeDir
	ModeSymlink    = fs.ModeSymlink
	ModeAppend     = fs.ModeAppend
	ModeExclusive  = fs.ModeExclusive
	ModeTemporary  = fs.ModeTemporary
	ModeDevice     = fs.ModeDevice
	ModeNamedPipe  = fs.ModeNamedPipe
	ModeSocket     = fs.ModeSocket
	ModeSetuid     = fs.ModeSetuid
	ModeSetgid     = fs.ModeSetgid
	ModeCharDevice = fs.ModeCharDevice
	ModeSticky     = fs.ModeSticky
	ModeIrregular  = fs.ModeIrregular
	ModeType       = fs.ModeType

	SEEK_SET = 0
	SEEK_CUR = 1
	SEEK_END = 2

	DevNull           = "/dev/null"
	PathListSeparator = ':'

	PathSeparator = '/'
)

var (
	ErrNotExist   = fs.ErrNotExist
	ErrExist      = fs.ErrExist
	ErrPermission = fs.ErrPermission
	ErrInvalid    = fs.ErrInvalid
	ErrClosed     = fs.ErrClosed

	ErrNoDeadline       = realos.ErrNoDeadline
	ErrDeadlineExceeded = realos.ErrDeadlineExceeded
	ErrProcessDone      = realos.ErrProcessDone
)

func IsTimeout(err error) bool                   { return realos.IsTimeout(err) }
func IsPathSeparator(c uint8) bool               { return c == '/' }
func NewSyscallError(sc string, err error) error { return realos.NewSyscallError(sc, err) }
func SameFile(a, b FileInfo) bool {
	x, ok1 := a.(fileInfo)
	y, ok2 := b.(fileInfo)
	return ok1 && ok2 && x.n == y.n
}

func IsNotExist(err error) bool   { return realos.IsNotExist(err) }
func IsExist(err error) bool      { return realos.IsExist(err) }
func IsPermission(err error) bool { return realos.IsPermission(err) }

// ---- the world ------------------------------------------------------------------------------------

type nodeKind int

const (
	kFile nodeKind = iota
	kDir
	kSymlink
)

type node struct {
	kind     nodeKind
	mode     FileMode
	data     []byte
	target   string
	children map[string]*node
	created  int // id of the process that created it; 0 = pre-existing, -1 = foreign actor
}

// Event is one recorded operation: the history the oracles read.
type Event struct {
	Seq   int    `json:"seq"`
	Proc  int    `json:"proc"`
	Op    string `json:"op"`
	Path  string `json:"path,omitempty"`
	Flag  int    `json:"flag,omitempty"`
	N     int    `json:"n,omitempty"`   // bytes requested (write) / returned (read)
	Got   int    `json:"got,omitempty"` // bytes actually written
	Err   string `json:"err,omitempty"`
	Fault string `json:"fault,omitempty"`
}

func (e Event) String() string {
	s := fmt.Sprintf("#%d p%d %s %s", e.Seq, e.Proc, e.Op, e.Path)
	if e.Op == "write" || e.Op == "read" {
		s += fmt.Sprintf(" n=%d got=%d", e.N, e.Got)
	}
	if e.Fault != "" {
		s += " FAULT=" + e.Fault
	}
	if e.Err != "" {
		s += " err=" + e.Err
	}
	return s
}

// Mutating reports whether the operation changed (or tried to change) the file system.
func (e Event) Mutating() bool {
	switch e.Op {
	case "mkdir", "mkdirall", "create", "write", "remove", "removeall", "rename", "truncate", "chmod", "symlink", "writefile", "link", "chown", "chtimes":
		return true
	case "openfile":
		return e.Flag&(O_CREATE|O_TRUNC|O_WRONLY|O_RDWR|O_APPEND) != 0
	}
	return false
}

// Fault is one planned fault: it fires on the N-th (0-based) operation of type Op.
type Fault struct {
	Op    string `json:"op"`   // read | write | mkdir | openfile | open | stat | getwd
	N     int    `json:"n"`    // which occurrence of that operation type
	Kind  string `json:"kind"` // EIO | ENOSPC | EACCES | EROFS | ENOENT | EMFILE | foreign:<action>
	Bytes int    `json:"bytes,omitempty"`
	Arg   string `json:"arg,omitempty"`
	Fired bool   `json:"fired"`
}

// Proc is one simulated emerge process.
type Proc struct {
	ID     int
	Args   []string
	Cwd    string
	Out    *File
	Err    *File
	Exited bool
	Code   int
}

type World struct {
	root        *node
	Hist        []Event
	Faults      []*Fault
	opSeen      map[string]int
	Procs       []*Proc
	cur         *Proc
	Yield       func(p *Proc) // scheduler hook, called before every operation
	Clock       int64         // simulated nanoseconds; advanced on every operation
	Foreign     func(w *World, action, arg string)
	ForeignMode bool // Put marks what it creates as foreign (created = -1)
}

var W *World

// The simulated operating system is used by one goroutine at a time. Code under test that spawns
// goroutines of its own (a generator rendering its files concurrently) would otherwise race on the
// world's maps: every entry point takes a process-wide lock, re-entrant per goroutine because the
// entry points call each other. With a second simulated process (Yield hook set) the hand-off
// between the two process goroutines already serialises everything, and a lock held across that
// hand-off would deadlock, so it is not taken there.
var (
	bigMu    sync.Mutex
	bigOwner atomic.Uint64
	bigDepth int
)

func curGoid() uint64 {
	var buf [40]byte
	n := runtime.Stack(buf[:], false)
	var id uint64
	for i := len("goroutine "); i < n && buf[i] >= '0' && buf[i] <= '9'; i++ {
		id = id*10 + uint64(buf[i]-'0')
	}
	return id
}

func guard() func() {
	if W != nil && W.Yield != nil {
		return func() {}
	}
	g := curGoid()
	if bigOwner.Load() == g {
		bigDepth++
		return func() { bigDepth-- }
	}
	bigMu.Lock()
	bigOwner.Store(g)
	bigDepth = 1
	return func() {
		bigDepth--
		if bigDepth == 0 {
			bigOwner.Store(0)
			bigMu.Unlock()
		}
	}
}

// exported process-level variables, re-pointed at every context switch
var (
	Args   []string
	Stdout *File
	Stderr *File
	Stdin  *File
)

func NewWorld() *World {
	w := &World{root: &node{kind: kDir, mode: 0o755 | ModeDir, children: map[string]*node{}}, opSeen: map[string]int{}}
	W = w
	return w
}

func (w *World) NewProc(args []string, cwd string) *Proc {
	p := &Proc{ID: len(w.Procs) + 1, Args: args, Cwd: cwd}
	p.Out = &File{name: "/dev/stdout", stream: true, proc: p}
	p.Err = &File{name: "/dev/stderr", stream: true, proc: p}
	w.Procs = append(w.Procs, p)
	return p
}

// Switch makes p the running process.
func (w *World) Switch(p *Proc) {
	w.cur = p
	Args, Stdout, Stderr = p.Args, p.Out, p.Err
	Stdin = &File{name: "/dev/stdin", stream: true, proc: p}
}

type exitPanic struct{ code int }

// Exit unwinds to the harness with the exit status.
func Exit(code int) {
	p := W.cur
	p.Exited, p.Code = true, code
	panic(exitPanic{code})
}

// RunMain runs f as process p and returns its exit status; a panic other than Exit is returned.
func (w *World) RunMain(p *Proc, f func()) (code int, crashed any, stack string) {
	defer func() {
		if r := recover(); r != nil {
			if e, ok := r.(exitPanic); ok {
				code = e.code
				return
			}
			crashed = r
			code = 2
			stack = string(debug.Stack())
		}
	}()
	f()
	// falling off main is exit status 0
	p.Exited, p.Code = true, 0
	return 0, nil, ""
}

// ---- path handling --------------------------------------------------------------------------------

func (w *World) abs(p string) string {
	if p == "" {
		return ""
	}
	if !strings.HasPrefix(p, "/") {
		p = w.cur.Cwd + "/" + p
	}
	return path.Clean(p)
}

// walk resolves a path. follow decides whether a final symlink is followed.
func (w *World) walk(p string, follow bool, depth int) (parent *node, name string, n *node, err error) {
	if depth > 40 {
		return nil, "", nil, syscall.ELOOP
	}
	if p == "" {
		return nil, "", nil, syscall.ENOENT
	}
	ap := w.abs(p)
	if ap == "/" {
		return nil, "/", w.root, nil
	}
	parts := strings.Split(strings.TrimPrefix(ap, "/"), "/")
	cur := w.root
	for i, part := range parts {
		if cur.kind != kDir {
			return nil, "", nil, syscall.ENOTDIR
		}
		if cur.mode&0o100 == 0 && false {
			return nil, "", nil, syscall.EACCES
		}
		child := cur.children[part]
		last := i == len(parts)-1
		if child == nil {
			if last {
				return cur, part, nil, nil
			}
			return nil, "", nil, syscall.ENOENT
		}
		if child.kind == kSymlink && (!last || follow) {
			t := child.target
			if !strings.HasPrefix(t, "/") {
				t = "/" + strings.Join(parts[:i], "/") + "/" + t
			}
			rest := strings.Join(parts[i+1:], "/")
			if rest != "" {
				t += "/" + rest
			}
			return w.walk(path.Clean(t), follow, depth+1)
		}
		if last {
			return cur, part, child, nil
		}
		cur = child
	}
	return nil, "", nil, syscall.ENOENT
}

// ---- operation bookkeeping and fault injection ---------------------------------------------------

func (w *World) begin(op, p string) (ev *Event, fault *Fault) {
	if w.Yield != nil && w.cur != nil {
		w.Yield(w.cur)
	}
	w.Clock += 1000
	n := w.opSeen[op]
	w.opSeen[op] = n + 1
	for _, f := range w.Faults {
		if !f.Fired && f.Op == op && f.N == n {
			f.Fired = true
			if strings.HasPrefix(f.Kind, "foreign:") {
				if w.Foreign != nil {
					w.Foreign(w, strings.TrimPrefix(f.Kind, "foreign:"), f.Arg)
				}
				w.Hist = append(w.Hist, Event{Seq: len(w.Hist), Proc: -1, Op: "foreign", Path: f.Arg, Fault: f.Kind})
				continue
			}
			fault = f
		}
	}
	pid := 0
	if w.cur != nil {
		pid = w.cur.ID
	}
	w.Hist = append(w.Hist, Event{Seq: len(w.Hist), Proc: pid, Op: op, Path: p})
	ev = &w.Hist[len(w.Hist)-1]
	if fault != nil {
		ev.Fault = fault.Kind
	}
	return
}

func errnoOf(kind string) syscall.Errno {
	switch kind {
	case "EIO":
		return syscall.EIO
	case "ENOSPC":
		return syscall.ENOSPC
	case "EACCES":
		return syscall.EACCES
	case "EROFS":
		return syscall.EROFS
	case "ENOENT":
		return syscall.ENOENT
	case "EMFILE":
		return syscall.EMFILE
	case "EEXIST":
		return syscall.EEXIST
	case "EISDIR":
		return syscall.EISDIR
	case "EXDEV":
		return syscall.EXDEV
	case "EPERM":
		return syscall.EPERM
	case "EBUSY":
		return syscall.EBUSY
	case "EDQUOT":
		return syscall.EDQUOT
	}
	return syscall.EIO
}

func (w *World) fail(ev *Event, op, p string, e error) error {
	pe := &PathError{Op: op, Path: p, Err: e}
	ev.Err = pe.Error()
	return pe
}

// ---- the os API -----------------------------------------------------------------------------------

func Getwd() (string, error) {
	defer guard()()
	ev, f := W.begin("getwd", "")
	if f != nil {
		e := errnoOf(f.Kind)
		ev.Err = e.Error()
		return "", realos.NewSyscallError("getwd", e)
	}
	return W.cur.Cwd, nil
}

func Chdir(dir string) error {
	defer guard()()
	ev, _ := W.begin("chdir", dir)
	_, _, n, err := W.walk(dir, true, 0)
	if err != nil {
		return W.fail(ev, "chdir", dir, err)
	}
	if n == nil {
		return W.fail(ev, "chdir", dir, syscall.ENOENT)
	}
	if n.kind != kDir {
		return W.fail(ev, "chdir", dir, syscall.ENOTDIR)
	}
	W.cur.Cwd = W.abs(dir)
	return nil
}

type fileInfo struct {
	name string
	n    *node
}

func (fi fileInfo) Name() string { return fi.name }
func (fi fileInfo) Size() int64  { return int64(len(fi.n.data)) }
func (fi fileInfo) Mode() FileMode {
	switch fi.n.kind {
	case kDir:
		return fi.n.mode.Perm() | ModeDir
	case kSymlink:
		return fi.n.mode.Perm() | ModeSymlink
	}
	return fi.n.mode.Perm()
}
func (fi fileInfo) ModTime() time.Time { return time.Unix(0, 0) }
func (fi fileInfo) IsDir() bool        { return fi.n.kind == kDir }
func (fi fileInfo) Sys() any           { return nil }

func stat(op, name string, follow bool) (FileInfo, error) {
	defer guard()()
	ev, f := W.begin(op, name)
	if f != nil {
		return nil, W.fail(ev, op, name, errnoOf(f.Kind))
	}
	_, base, n, err := W.walk(name, follow, 0)
	if err != nil {
		return nil, W.fail(ev, op, name, err)
	}
	if n == nil {
		return nil, W.fail(ev, op, name, syscall.ENOENT)
	}
	return fileInfo{base, n}, nil
}

func Stat(name string) (FileInfo, error)  { return stat("stat", name, true) }
func Lstat(name string) (FileInfo, error) { return stat("lstat", name, false) }

func Mkdir(name string, perm FileMode) error {
	defer guard()()
	ev, f := W.begin("mkdir", name)
	if f != nil {
		return W.fail(ev, "mkdir", name, errnoOf(f.Kind))
	}
	parent, base, n, err := W.walk(name, false, 0)
	if err != nil {
		return W.fail(ev, "mkdir", name, err)
	}
	if n != nil {
		return W.fail(ev, "mkdir", name, syscall.EEXIST)
	}
	parent.children[base] = &node{kind: kDir, mode: perm.Perm() | ModeDir, children: map[string]*node{}, created: W.cur.ID}
	return nil
}

func MkdirAll(p string, perm FileMode) error {
	defer guard()()
	ev, f := W.begin("mkdirall", p)
	if f != nil {
		return W.fail(ev, "mkdir", p, errnoOf(f.Kind))
	}
	ap := W.abs(p)
	parts := strings.Split(strings.TrimPrefix(ap, "/"), "/")
	cur := "/"
	for _, part := range parts {
		if part == "" {
			continue
		}
		cur = path.Join(cur, part)
		parent, base, n, err := W.walk(cur, true, 0)
		if err != nil {
			return W.fail(ev, "mkdir", p, err)
		}
		if n == nil {
			parent.children[base] = &node{kind: kDir, mode: perm.Perm() | ModeDir, children: map[string]*node{}, created: W.cur.ID}
		} else if n.kind != kDir {
			return W.fail(ev, "mkdir", p, syscall.ENOTDIR)
		}
	}
	return nil
}

// File is an open file or a standard stream.
type File struct {
	name   string
	n      *node
	off    int
	flag   int
	closed bool
	stream bool
	proc   *Proc
	Buf    []byte // captured output of a standard stream
}

func Open(name string) (*File, error) { return openFile("open", name, O_RDONLY, 0) }
func Create(name string) (*File, error) {
	defer guard()()
	return openFile("create", name, O_RDWR|O_CREATE|O_TRUNC, 0o666)
}
func OpenFile(name string, flag int, perm FileMode) (*File, error) {
	defer guard()()
	return openFile("openfile", name, flag, perm)
}

func openFile(op, name string, flag int, perm FileMode) (*File, error) {
	defer guard()()
	ev, f := W.begin(op, name)
	ev.Flag = flag
	if f != nil {
		return nil, W.fail(ev, "open", name, errnoOf(f.Kind))
	}
	follow := !(flag&O_CREATE != 0 && flag&O_EXCL != 0)
	parent, base, n, err := W.walk(name, follow, 0)
	if err != nil {
		return nil, W.fail(ev, "open", name, err)
	}
	if n == nil {
		if flag&O_CREATE == 0 {
			return nil, W.fail(ev, "open", name, syscall.ENOENT)
		}
		// creating through a dangling symlink creates the target; with O_EXCL the link itself blocks
		n = &node{kind: kFile, mode: perm.Perm(), created: W.cur.ID}
		parent.children[base] = n
	} else {
		if flag&O_CREATE != 0 && flag&O_EXCL != 0 {
			return nil, W.fail(ev, "open", name, syscall.EEXIST)
		}
		if n.kind == kDir && flag&(O_WRONLY|O_RDWR) != 0 {
			return nil, W.fail(ev, "open", name, syscall.EISDIR)
		}
		if flag&O_TRUNC != 0 && n.kind == kFile {
			n.data = nil
		}
	}
	return &File{name: name, n: n, flag: flag, proc: W.cur}, nil
}

func (f *File) Name() string { return f.name }

func (f *File) Read(p []byte) (int, error) {
	defer guard()()
	if f.stream {
		return 0, io.EOF
	}
	ev, flt := W.begin("read", f.name)
	ev.N = len(p)
	if f.closed {
		return 0, W.fail(ev, "read", f.name, ErrClosed)
	}
	if f.n.kind == kDir {
		return 0, W.fail(ev, "read", f.name, syscall.EISDIR)
	}
	if flt != nil {
		return 0, W.fail(ev, "read", f.name, errnoOf(flt.Kind))
	}
	if f.off >= len(f.n.data) {
		return 0, io.EOF
	}
	n := copy(p, f.n.data[f.off:])
	f.off += n
	ev.Got = n
	return n, nil
}

func (f *File) Write(p []byte) (int, error) {
	defer guard()()
	if f.stream {
		f.Buf = append(f.Buf, p...)
		return len(p), nil
	}
	ev, flt := W.begin("write", f.name)
	ev.N = len(p)
	if f.closed {
		return 0, W.fail(ev, "write", f.name, ErrClosed)
	}
	if f.flag&(O_WRONLY|O_RDWR) == 0 {
		return 0, W.fail(ev, "write", f.name, syscall.EBADF)
	}
	n := len(p)
	var werr error
	if flt != nil {
		n = flt.Bytes
		if n > len(p) {
			n = len(p)
		}
		werr = errnoOf(flt.Kind)
	}
	if f.flag&O_APPEND != 0 {
		f.off = len(f.n.data)
	}
	for len(f.n.data) < f.off {
		f.n.data = append(f.n.data, 0)
	}
	f.n.data = append(f.n.data[:f.off], append(append([]byte(nil), p[:n]...), f.n.data[min(len(f.n.data), f.off+n):]...)...)
	f.off += n
	ev.Got = n
	if werr != nil {
		return n, W.fail(ev, "write", f.name, werr)
	}
	return n, nil
}

func (f *File) WriteString(s string) (int, error) { return f.Write([]byte(s)) }

func (f *File) Close() error {
	defer guard()()
	if f.stream {
		return nil
	}
	ev, flt := W.begin("close", f.name)
	if f.closed {
		return W.fail(ev, "close", f.name, ErrClosed)
	}
	f.closed = true
	if flt != nil {
		// a delayed write error reported at close (NFS, quota): the descriptor is gone all the same
		return W.fail(ev, "close", f.name, errnoOf(flt.Kind))
	}
	return nil
}

func (f *File) Sync() error {
	defer guard()()
	if f.stream {
		return nil
	}
	ev, flt := W.begin("sync", f.name)
	if f.closed {
		return W.fail(ev, "sync", f.name, ErrClosed)
	}
	if flt != nil {
		return W.fail(ev, "sync", f.name, errnoOf(flt.Kind))
	}
	return nil
}

func (f *File) Chmod(mode FileMode) error {
	defer guard()()
	ev, flt := W.begin("chmod", f.name)
	if flt != nil {
		return W.fail(ev, "chmod", f.name, errnoOf(flt.Kind))
	}
	if !f.stream && f.n != nil {
		f.n.mode = f.n.mode&^ModePerm | mode.Perm()
	}
	return nil
}

func (f *File) Chown(uid, gid int) error { return nil }
func (f *File) Chdir() error             { return Chdir(f.name) }

func (f *File) Seek(offset int64, whence int) (int64, error) {
	defer guard()()
	if f.stream || f.closed {
		return 0, &PathError{Op: "seek", Path: f.name, Err: syscall.ESPIPE}
	}
	base := 0
	switch whence {
	case SEEK_CUR:
		base = f.off
	case SEEK_END:
		base = len(f.n.data)
	}
	if int64(base)+offset < 0 {
		return 0, &PathError{Op: "seek", Path: f.name, Err: syscall.EINVAL}
	}
	f.off = base + int(offset)
	return int64(f.off), nil
}

func (f *File) ReadAt(p []byte, off int64) (int, error) {
	defer guard()()
	if f.stream || f.closed || f.n.kind == kDir {
		return 0, &PathError{Op: "read", Path: f.name, Err: syscall.EINVAL}
	}
	if int(off) >= len(f.n.data) {
		return 0, io.EOF
	}
	n := copy(p, f.n.data[off:])
	if n < len(p) {
		return n, io.EOF
	}
	return n, nil
}

func (f *File) WriteAt(p []byte, off int64) (int, error) {
	defer guard()()
	save := f.off
	f.off = int(off)
	n, err := f.Write(p)
	f.off = save
	return n, err
}

func (f *File) ReadDir(n int) ([]DirEntry, error) { return ReadDir(f.name) }
func (f *File) Readdir(n int) ([]FileInfo, error) {
	des, err := ReadDir(f.name)
	var out []FileInfo
	for _, d := range des {
		fi, _ := d.Info()
		out = append(out, fi)
	}
	return out, err
}
func (f *File) Readdirnames(n int) ([]string, error) {
	des, err := ReadDir(f.name)
	var out []string
	for _, d := range des {
		out = append(out, d.Name())
	}
	return out, err
}
func (f *File) SetDeadline(time.Time) error      { return ErrNoDeadline }
func (f *File) SetReadDeadline(time.Time) error  { return ErrNoDeadline }
func (f *File) SetWriteDeadline(time.Time) error { return ErrNoDeadline }

func (f *File) Stat() (FileInfo, error) {
	defer guard()()
	if f.stream {
		return nil, &PathError{Op: "stat", Path: f.name, Err: syscall.EINVAL}
	}
	return fileInfo{path.Base(f.name), f.n}, nil
}

func (f *File) Fd() uintptr { return 3 }

func (f *File) Truncate(size int64) error {
	defer guard()()
	ev, _ := W.begin("truncate", f.name)
	if int(size) < len(f.n.data) {
		f.n.data = f.n.data[:size]
	}
	_ = ev
	return nil
}

func ReadFile(name string) ([]byte, error) {
	defer guard()()
	f, err := openFile("open", name, O_RDONLY, 0)
	if err != nil {
		return nil, err
	}
	defer f.Close()
	return io.ReadAll(f)
}

func WriteFile(name string, data []byte, perm FileMode) error {
	defer guard()()
	f, err := openFile("writefile", name, O_WRONLY|O_CREATE|O_TRUNC, perm)
	if err != nil {
		return err
	}
	_, err = f.Write(data)
	if cerr := f.Close(); err == nil {
		err = cerr
	}
	return err
}

func Remove(name string) error {
	defer guard()()
	ev, flt := W.begin("remove", name)
	if flt != nil {
		return W.fail(ev, "remove", name, errnoOf(flt.Kind))
	}
	parent, base, n, err := W.walk(name, false, 0)
	if err != nil {
		return W.fail(ev, "remove", name, err)
	}
	if n == nil {
		return W.fail(ev, "remove", name, syscall.ENOENT)
	}
	if n.kind == kDir && len(n.children) > 0 {
		return W.fail(ev, "remove", name, syscall.ENOTEMPTY)
	}
	delete(parent.children, base)
	return nil
}

func RemoveAll(name string) error {
	defer guard()()
	ev, flt := W.begin("removeall", name)
	if flt != nil {
		return W.fail(ev, "unlinkat", name, errnoOf(flt.Kind))
	}
	parent, base, n, err := W.walk(name, false, 0)
	if err != nil || n == nil {
		_ = ev
		return nil
	}
	if parent == nil {
		W.root.children = map[string]*node{}
		return nil
	}
	delete(parent.children, base)
	return nil
}

func Rename(oldp, newp string) error {
	defer guard()()
	ev, flt := W.begin("rename", oldp+" -> "+newp)
	lerr := func(e error) error {
		le := &LinkError{Op: "rename", Old: oldp, New: newp, Err: e}
		ev.Err = le.Error()
		return le
	}
	if flt != nil {
		return lerr(errnoOf(flt.Kind))
	}
	op, ob, on, err := W.walk(oldp, false, 0)
	if err != nil || on == nil {
		return lerr(syscall.ENOENT)
	}
	np, nb, nn, err := W.walk(newp, false, 0)
	if err != nil {
		return lerr(err)
	}
	if nn != nil && nn != on {
		// rename(2): a directory replaces only an empty directory, a non-directory only a non-directory
		switch {
		case on.kind == kDir && nn.kind != kDir:
			return lerr(syscall.ENOTDIR)
		case on.kind != kDir && nn.kind == kDir:
			return lerr(syscall.EISDIR)
		case on.kind == kDir && len(nn.children) > 0:
			return lerr(syscall.ENOTEMPTY)
		}
	}
	delete(op.children, ob)
	np.children[nb] = on
	return nil
}

func Link(oldname, newname string) error {
	defer guard()()
	ev, flt := W.begin("link", oldname+" -> "+newname)
	lerr := func(e error) error {
		le := &LinkError{Op: "link", Old: oldname, New: newname, Err: e}
		ev.Err = le.Error()
		return le
	}
	if flt != nil {
		return lerr(errnoOf(flt.Kind))
	}
	_, _, on, err := W.walk(oldname, false, 0)
	if err != nil || on == nil {
		return lerr(syscall.ENOENT)
	}
	if on.kind == kDir {
		return lerr(syscall.EPERM)
	}
	np, nb, nn, err := W.walk(newname, false, 0)
	if err != nil {
		return lerr(err)
	}
	if nn != nil {
		return lerr(syscall.EEXIST)
	}
	np.children[nb] = on // a hard link: the same node under a second name
	return nil
}

func Readlink(name string) (string, error) {
	defer guard()()
	ev, _ := W.begin("readlink", name)
	_, _, n, err := W.walk(name, false, 0)
	if err != nil || n == nil {
		return "", W.fail(ev, "readlink", name, syscall.ENOENT)
	}
	if n.kind != kSymlink {
		return "", W.fail(ev, "readlink", name, syscall.EINVAL)
	}
	return n.target, nil
}

func Truncate(name string, size int64) error {
	defer guard()()
	ev, flt := W.begin("truncate", name)
	if flt != nil {
		return W.fail(ev, "truncate", name, errnoOf(flt.Kind))
	}
	_, _, n, err := W.walk(name, true, 0)
	if err != nil || n == nil {
		return W.fail(ev, "truncate", name, syscall.ENOENT)
	}
	if n.kind == kDir {
		return W.fail(ev, "truncate", name, syscall.EISDIR)
	}
	for int64(len(n.data)) < size {
		n.data = append(n.data, 0)
	}
	n.data = n.data[:size]
	return nil
}

func chmeta(op, name string, follow bool) error {
	defer guard()()
	ev, flt := W.begin(op, name)
	if flt != nil {
		return W.fail(ev, op, name, errnoOf(flt.Kind))
	}
	_, _, n, err := W.walk(name, follow, 0)
	if err != nil || n == nil {
		return W.fail(ev, op, name, syscall.ENOENT)
	}
	return nil
}

func Chown(name string, uid, gid int) error             { return chmeta("chown", name, true) }
func Lchown(name string, uid, gid int) error            { return chmeta("chown", name, false) }
func Chtimes(name string, atime, mtime time.Time) error { return chmeta("chtimes", name, true) }

func Symlink(oldname, newname string) error {
	defer guard()()
	ev, _ := W.begin("symlink", newname)
	parent, base, n, err := W.walk(newname, false, 0)
	if err != nil {
		return W.fail(ev, "symlink", newname, err)
	}
	if n != nil {
		return W.fail(ev, "symlink", newname, syscall.EEXIST)
	}
	parent.children[base] = &node{kind: kSymlink, mode: 0o777, target: oldname, created: W.cur.ID}
	return nil
}

func Chmod(name string, mode FileMode) error {
	defer guard()()
	ev, flt := W.begin("chmod", name)
	if flt != nil {
		return W.fail(ev, "chmod", name, errnoOf(flt.Kind))
	}
	_, _, n, err := W.walk(name, true, 0)
	if err != nil || n == nil {
		return W.fail(ev, "chmod", name, syscall.ENOENT)
	}
	n.mode = n.mode&^ModePerm | mode.Perm()
	return nil
}

type dirEntry struct{ fileInfo }

func (d dirEntry) Type() FileMode          { return d.Mode().Type() }
func (d dirEntry) Info() (FileInfo, error) { return d.fileInfo, nil }

func ReadDir(name string) ([]DirEntry, error) {
	defer guard()()
	ev, _ := W.begin("readdir", name)
	_, _, n, err := W.walk(name, true, 0)
	if err != nil || n == nil {
		return nil, W.fail(ev, "open", name, syscall.ENOENT)
	}
	if n.kind != kDir {
		return nil, W.fail(ev, "readdir", name, syscall.ENOTDIR)
	}
	var names []string
	for k := range n.children {
		names = append(names, k)
	}
	sort.Strings(names)
	var out []DirEntry
	for _, k := range names {
		out = append(out, dirEntry{fileInfo{k, n.children[k]}})
	}
	return out, nil
}

func Getenv(key string) string                      { return "" }
func LookupEnv(key string) (string, bool)           { return "", false }
func Environ() []string                             { return nil }
func Setenv(key, value string) error                { return nil }
func Unsetenv(key string) error                     { return nil }
func Clearenv()                                     {}
func ExpandEnv(s string) string                     { return realos.Expand(s, Getenv) }
func Expand(s string, m func(string) string) string { return realos.Expand(s, m) }
func Getuid() int                                   { return 1000 }
func Geteuid() int                                  { return 1000 }
func Getgid() int                                   { return 1000 }
func Getegid() int                                  { return 1000 }
func Getppid() int                                  { return 1 }
func Getpagesize() int                              { return 4096 }
func UserCacheDir() (string, error)                 { return "/home/sim/.cache", nil }
func UserConfigDir() (string, error)                { return "/home/sim/.config", nil }
func Getpid() int                                   { return 4242 }
func Hostname() (string, error)                     { return "simhost", nil }
func TempDir() string                               { return "/tmp" }
func UserHomeDir() (string, error)                  { return "/home/sim", nil }
func Executable() (string, error)                   { return "/usr/bin/emerge", nil }

func MkdirTemp(dir, pattern string) (string, error) {
	defer guard()()
	if dir == "" {
		dir = "/tmp"
	}
	name := path.Join(dir, strings.ReplaceAll(pattern, "*", "")+fmt.Sprint(len(W.Hist)))
	return name, MkdirAll(name, 0o700)
}

func CreateTemp(dir, pattern string) (*File, error) {
	defer guard()()
	if dir == "" {
		dir = "/tmp"
	}
	return OpenFile(path.Join(dir, strings.ReplaceAll(pattern, "*", "")+fmt.Sprint(len(W.Hist))), O_RDWR|O_CREATE|O_EXCL, 0o600)
}

// ---- harness-side helpers (not part of the os surface) --------------------------------------------

// Put creates pre-existing content (created = 0) without recording history.
func (w *World) Put(p string, kind string, data string, mode FileMode) {
	owner := 0
	if w.ForeignMode {
		owner = -1
	}
	ap := path.Clean(p)
	parts := strings.Split(strings.TrimPrefix(ap, "/"), "/")
	cur := w.root
	for i, part := range parts {
		last := i == len(parts)-1
		child := cur.children[part]
		if child == nil || last {
			if !last {
				child = &node{kind: kDir, mode: 0o755 | ModeDir, children: map[string]*node{}, created: owner}
			} else {
				switch kind {
				case "dir":
					if child != nil && child.kind == kDir {
						return
					}
					child = &node{kind: kDir, mode: mode.Perm() | ModeDir, children: map[string]*node{}, created: owner}
				case "file":
					child = &node{kind: kFile, mode: mode.Perm(), data: []byte(data), created: owner}
				case "symlink":
					child = &node{kind: kSymlink, mode: 0o777, target: data, created: owner}
				}
			}
			cur.children[part] = child
		}
		cur = child
	}
}

// Delete removes a path without recording history (foreign actor).
func (w *World) Delete(p string) {
	ap := path.Clean(p)
	parts := strings.Split(strings.TrimPrefix(ap, "/"), "/")
	cur := w.root
	for i, part := range parts {
		child := cur.children[part]
		if child == nil {
			return
		}
		if i == len(parts)-1 {
			delete(cur.children, part)
			return
		}
		cur = child
	}
}

// Entry is one path of a snapshot.
type Entry struct {
	Kind    string `json:"kind"`
	Mode    uint32 `json:"mode"`
	Data    string `json:"data,omitempty"`
	Target  string `json:"target,omitempty"`
	Created int    `json:"created"`
}

// Snapshot lists every path with type, mode, content and link target.
func (w *World) Snapshot() map[string]Entry {
	out := map[string]Entry{}
	var rec func(p string, n *node)
	rec = func(p string, n *node) {
		e := Entry{Mode: uint32(n.mode.Perm()), Created: n.created}
		switch n.kind {
		case kDir:
			e.Kind = "dir"
		case kFile:
			e.Kind, e.Data = "file", string(n.data)
		case kSymlink:
			e.Kind, e.Target = "symlink", n.target
		}
		out[p] = e
		if n.kind == kDir {
			for k, c := range n.children {
				rec(path.Join(p, k), c)
			}
		}
	}
	rec("/", w.root)
	return out
}

// Lookup returns the entry at an absolute path without following a final symlink.
func (w *World) Lookup(p string) (Entry, bool) {
	e, ok := w.Snapshot()[path.Clean(p)]
	return e, ok
}

var _ = errors.New
