// Package c14 decides the fault-driven half of property C14: no entry point panics, hangs or
// returns success with a nil result, whatever the simulated disk does to the input (truncation
// at any instant, read errors mid-stream, short / zero-length / data+EOF reads) and whatever
// bytes or pattern strings the workload carries; the command-line tool turns every failure into
// a message and a non-zero exit status, never a Go stack trace (real binary tier).
package c14

import (
	"bytes"
	"fmt"
	"os"
	"os/exec"
	"path/filepath"
	"runtime/debug"
	"strconv"
	"strings"
	"time"

	"github.com/moorara/algo/lexer"
	"github.com/moorara/algo/parser/lr"

	ebnflexer "github.com/gardenbed/emerge/internal/ebnf/lexer"
	"github.com/gardenbed/emerge/internal/ebnf/parser"
	"github.com/gardenbed/emerge/internal/ebnf/parser/ast"
	"github.com/gardenbed/emerge/internal/ebnf/parser/spec"
	regexast "github.com/gardenbed/emerge/internal/regex/parser/ast"
	"github.com/gardenbed/emerge/internal/regex/parser/nfa"
	"github.com/gardenbed/emerge/zz_verif/gen"
	"github.com/gardenbed/emerge/zz_verif/simrt"
	simctl "github.com/moorara/algo/zz_simctl"
)

type Engine struct {
	FixtureDir string
	EmergeBin  string // real binary built from the current tree
}

func (Engine) ID() string { return "C14" }

func (Engine) Meta() simrt.Meta {
	return simrt.Meta{
		Level: "exploration",
		Rule: "a case = one generated specification text (valid, seeded-defect or byte-mutated) or a batch of pattern strings or a batch of command lines; an evaluation = one call of an entry point under one reader fault plan (or one real process); " +
			"distinct_nontrivial counts distinct (entry point, reader fault kind, where the fault fell relative to the text: inside token / between tokens / on a half boundary / first read, outcome class) tuples, distinct (pattern shape class, outcome class) pairs and distinct (command-line class, exit status) pairs; fault-free runs on unmutated valid text are evaluated but not counted",
		Assumptions: []string{
			"Go toolchain; panics are observed by recover() in the harness, fatal runtime errors (stack exhaustion, out of memory) by the death of the worker process, hangs by a per-case watchdog (re-run alone with 5 min before it is called a hang)",
			"the arbitrary-input half of C14 is only sampled as the workload the faults are injected into (generated and mutated specifications, patterns from a pattern grammar and their one-edit mutations); no systematic input-space coverage is claimed",
			"zero-length reads are injected a bounded number of times (an endless (0,nil) reader makes io.ReadFull spin by contract)",
		},
		RealCode:    []string{"internal/ebnf/lexer", "internal/ebnf/parser (+ast, spec)", "internal/regex/parser (+nfa, ast)", "Spec.DFA / LALRParsingTable", "real emerge binary built from the current tree (CLI tier: cmd/emerge, internal/command, generator)", "moorara/algo"},
		Stubs:       []string{"io.Reader (SimReader with all fault kinds)", "callbacks (trivial)", "real file system for the CLI tier (no fault injection there; the injecting CLI tier is the E-FS engine)"},
		FaultKinds:  []string{"fault_eof_truncation", "fault_read_error", "fault_read_error_with_data", "fault_read_error_kind_sim_eio", "fault_read_error_kind_unexpected_eof", "fault_read_error_kind_closed_pipe", "fault_read_error_kind_path_error", "fault_short_read", "fault_zero_read", "fault_data_with_eof", "fault_byte_mutation"},
		CaseTimeout: 400 * time.Second,
	}
}

const (
	kText = iota
	kTruncAll
	kPattern
	kCLI
	kLongLexeme
	kManySymbols
	kResourceProbe
)

func (e Engine) Plan(tier string, seed uint64) []simrt.Case {
	var cs []simrt.Case
	add := func(s uint64, label string, args ...int) {
		cs = append(cs, simrt.Case{Index: len(cs), Seed: s, Args: args, Label: label})
	}
	nText, nTrunc, nPat, nCLI := 120, 6, 24, 8
	if tier == "thorough" {
		nText, nTrunc, nPat, nCLI = 4000, 40, 600, 120
	}
	for i := 0; i < nText; i++ {
		add(simrt.Mix(seed, 14, 0, uint64(i)), "text", kText)
	}
	for i := 0; i < nTrunc; i++ {
		add(simrt.Mix(seed, 14, 1, uint64(i)), "truncate-every-byte", kTruncAll)
	}
	for i := 0; i < nPat; i++ {
		add(simrt.Mix(seed, 14, 2, uint64(i)), "patterns", kPattern)
	}
	for i := 0; i < nCLI; i++ {
		add(simrt.Mix(seed, 14, 3, uint64(i)), "cli", kCLI)
	}
	nLong := 6
	if tier == "thorough" {
		nLong = 60
	}
	for i := 0; i < nLong; i++ {
		add(simrt.Mix(seed, 14, 4, uint64(i)), "long-lexeme", kLongLexeme)
	}
	add(simrt.Mix(seed, 14, 6, 0), "resource-probe", kResourceProbe)
	nMany := 16
	if tier == "thorough" {
		nMany = 160
	}
	for i := 0; i < nMany; i++ {
		add(simrt.Mix(seed, 14, 5, uint64(i)), "many-symbols", kManySymbols)
	}
	return cs
}

// ---- reader plans -----------------------------------------------------------------------------

func drawPlan(t *simrt.Tape, n, B int) simrt.ReadPlan {
	p := simrt.FullPlan()
	calls := n/B + 2
	switch t.Draw(8) {
	case 0, 1: // full
	case 2:
		p.ErrCall = t.Draw(calls)
		p.ErrKind = t.Draw(len(simrt.ReadErrors))
	case 3:
		p.ErrCall = t.Draw(calls)
		p.ErrWithData = true
		p.ErrData = 1 + t.Draw(B)
		p.ErrKind = t.Draw(len(simrt.ReadErrors))
	case 4:
		p.Short = true
		p.ChunkSeed = uint64(t.Draw(1 << 30))
		p.MaxChunk = []int{1, 2, 7, 100, B - 1, B, 3 * B}[t.Draw(7)]
	case 5:
		nz := 1 + t.Draw(3)
		for i := 0; i < nz; i++ {
			p.ZeroCalls = append(p.ZeroCalls, t.Draw(calls+2))
		}
	case 6:
		p.DataEOF = true
	case 7:
		p.Short = true
		p.ChunkSeed = uint64(t.Draw(1 << 30))
		p.MaxChunk = 1 + t.Draw(64)
		p.ErrCall = t.Draw(n/max(1, p.MaxChunk)*2 + 2)
		if t.Chance(1, 2) {
			p.DataEOF = true
		}
		p.ErrKind = t.Draw(len(simrt.ReadErrors))
	}
	return p
}

// ---- entry points -----------------------------------------------------------------------------

type callResult struct {
	name    string
	gotNil  bool
	err     error
	panicV  any
	stack   string
	reader  *simrt.SimReader
	plan    simrt.ReadPlan
	elapsed time.Duration
}

// callEntryBounded runs one call on its own goroutine and gives up on it when this process has
// burnt budget of CPU time since the call began (nothing else runs in a worker meanwhile): a call
// that does not come back is reported at once, with its input, instead of stopping the worker until
// the per-case watchdog fires. The abandoned goroutine keeps spinning until the worker exits.
func callEntryBounded(which int, text []byte, plan simrt.ReadPlan, budget time.Duration) (cr callResult, hung bool) {
	done := make(chan callResult, 1)
	go func() { done <- callEntry(which, text, plan) }()
	cpu0, t0 := simrt.ProcessCPU(), time.Now()
	tick := time.NewTicker(20 * time.Millisecond)
	defer tick.Stop()
	for {
		select {
		case cr = <-done:
			return cr, false
		case <-tick.C:
			if simrt.ProcessCPU()-cpu0 > budget || time.Since(t0) > 20*budget {
				return callResult{name: entryNames[which], plan: plan}, true
			}
		}
	}
}

var entryNames = []string{"spec.Parse", "ebnf/ast.Parse", "Parser.Parse", "Parser.ParseAndBuildAST", "Parser.ParseAndEvaluate", "spec.Parse+DFA+LALR"}

func callEntry(which int, text []byte, plan simrt.ReadPlan) (cr callResult) {
	cr.name = entryNames[which]
	cr.plan = plan
	rd := simrt.NewSimReader(text, plan)
	cr.reader = rd
	began := time.Now()
	defer func() {
		cr.elapsed = time.Since(began)
		if r := recover(); r != nil {
			cr.panicV = r
			cr.stack = string(debug.Stack())
		}
	}()
	switch which {
	case 0:
		sp, err := spec.Parse("f", rd)
		cr.gotNil, cr.err = sp == nil, err
	case 1:
		g, err := ast.Parse("f", rd)
		cr.gotNil, cr.err = g == nil, err
	case 2, 3, 4:
		p, err := parser.New("f", rd)
		if err != nil {
			cr.gotNil, cr.err = true, err
			return
		}
		switch which {
		case 2:
			err = p.Parse(func(*lexer.Token) error { return nil }, func(int) error { return nil })
			cr.gotNil, cr.err = err != nil, err // Parse has no result: success is the absence of an error
		case 3:
			n, err := p.ParseAndBuildAST()
			cr.gotNil, cr.err = n == nil, err
		case 4:
			v, err := p.ParseAndEvaluate(func(i int, rhs []*lr.Value) (any, error) { return i, nil })
			cr.gotNil, cr.err = v == nil, err
		}
	case 5:
		sp, err := spec.Parse("f", rd)
		cr.gotNil, cr.err = sp == nil, err
		if err == nil && sp != nil {
			d, tm, err := sp.DFA()
			if (d == nil || tm == nil) == (err == nil) {
				cr.name = "Spec.DFA"
				cr.gotNil, cr.err = d == nil, err
				return
			}
			if err != nil && err.Error() == "" {
				cr.name, cr.gotNil, cr.err = "Spec.DFA", true, err
				return
			}
			n := 0
			for range sp.Grammar.Productions.All() {
				n++
			}
			if n <= 14 {
				tb, err := sp.LALRParsingTable()
				if (tb == nil) == (err == nil) || (err != nil && err.Error() == "") {
					cr.name, cr.gotNil, cr.err = "Spec.LALRParsingTable", tb == nil, err
					return
				}
			}
			if n <= 8 {
				// the other two table constructions are entry points of the package as well
				tb, err := sp.SLRParsingTable()
				if (tb == nil) == (err == nil) || (err != nil && err.Error() == "") {
					cr.name, cr.gotNil, cr.err = "Spec.SLRParsingTable", tb == nil, err
					return
				}
				tb, err = sp.GLRParsingTable()
				if (tb == nil) == (err == nil) || (err != nil && err.Error() == "") {
					cr.name, cr.gotNil, cr.err = "Spec.GLRParsingTable", tb == nil, err
					return
				}
				_ = sp.Productions()
			}
		}
	}
	return
}

// judge applies the invariants of one call. It returns a violation class or "".
func judge(cr callResult, textLen, B int) (string, string) {
	if cr.panicV != nil {
		site := panicSite(cr.stack)
		return "panic:" + cr.name + "@" + site, fmt.Sprintf("%s panicked at %s: %v", cr.name, site, cr.panicV)
	}
	if cr.gotNil == (cr.err == nil) {
		return "result_xor_error:" + cr.name, fmt.Sprintf("%s returned result-is-nil=%v together with err=%v", cr.name, cr.gotNil, cr.err)
	}
	if cr.err != nil && strings.TrimSpace(cr.err.Error()) == "" {
		return "empty_error:" + cr.name, fmt.Sprintf("%s returned an error with an empty message", cr.name)
	}
	rd := cr.reader
	if rd != nil {
		if rd.ErrDelivered && cr.err == nil {
			return "read_error_swallowed:" + cr.name, fmt.Sprintf("%s: the reader delivered the error %q at call %d but the call reported success", cr.name, cr.plan.Err().Error(), rd.Calls)
		}
		// progress is bounded by the input length: every read either returns >= 1 byte, is one of the
		// injected zero-length reads, or ends the stream
		budget := textLen + rd.ZeroReturned + 8
		if rd.ShortReturned == 0 {
			budget = textLen/B + rd.ZeroReturned + 8
		}
		if rd.Calls > budget {
			return "read_budget:" + cr.name, fmt.Sprintf("%s issued %d reads for %d bytes (budget %d)", cr.name, rd.Calls, textLen, budget)
		}
		if rd.CallsAfterTerm > 4 {
			return "reads_after_end:" + cr.name, fmt.Sprintf("%s kept reading (%d calls) after the stream had ended or failed", cr.name, rd.CallsAfterTerm)
		}
	}
	return "", ""
}

func panicSite(stack string) string { return simrt.PanicSite(stack, false) }

func panicSiteFrom(stack string, seenPanic bool) string { return simrt.PanicSite(stack, seenPanic) }

// knownFinding maps a violation class to a listed known finding by the call site that fails.
func knownFinding(x *simrt.Ctx, class string) string {
	for _, k := range x.Known {
		if k.Status != "known" || k.Signature == "" {
			continue
		}
		for _, sig := range strings.Split(k.Signature, "|") {
			if sig = strings.TrimSpace(sig); sig != "" && strings.Contains(class, sig) {
				return k.ID
			}
		}
	}
	return ""
}

func outcomeClass(cr callResult) string {
	switch {
	case cr.err == nil:
		return "ok"
	case simrt.IsInjected(cr.err):
		return "io_error"
	case strings.Contains(cr.err.Error(), "lexical error"):
		return "lexical_error"
	case strings.Contains(cr.err.Error(), "utf-8"):
		return "utf8_error"
	case strings.Contains(cr.err.Error(), "unexpected string"):
		return "syntax_error"
	}
	return "semantic_error"
}

func faultPlace(plan simrt.ReadPlan, lay *gen.Layout, cut, B int) string {
	if cut >= 0 {
		switch {
		case cut%B == 0 && cut > 0:
			return "cut_on_half_boundary"
		case cut == 0:
			return "cut_at_start"
		}
		if lay != nil {
			for _, l := range lay.Lexemes {
				if cut > l.Start && cut < l.Start+l.Len {
					if gen.IsSeparator(l.Kind) {
						return "cut_inside_separator"
					}
					return "cut_inside_token"
				}
				if cut == l.Start+l.Len && !gen.IsSeparator(l.Kind) {
					return "cut_right_after_token"
				}
			}
		}
		return "cut_between"
	}
	if plan.ErrCall == 0 {
		return "first_read"
	}
	if plan.ErrCall > 0 {
		return "later_read"
	}
	return "none"
}

func countFaults(res *simrt.Result, plan simrt.ReadPlan, rd *simrt.SimReader, cut int, mutated bool) {
	if cut >= 0 {
		res.Count("fault_eof_truncation", 1)
	}
	if rd != nil {
		if rd.ErrDelivered && !plan.ErrWithData {
			res.Count("fault_read_error", 1)
		}
		if rd.ErrDelivered {
			res.Count([]string{"fault_read_error_kind_sim_eio", "fault_read_error_kind_unexpected_eof", "fault_read_error_kind_closed_pipe", "fault_read_error_kind_path_error"}[plan.ErrKind%4], 1)
		}
		if rd.ErrDelivered && plan.ErrWithData {
			res.Count("fault_read_error_with_data", 1)
		}
		if rd.ShortReturned > 0 {
			res.Count("fault_short_read", 1)
		}
		if rd.ZeroReturned > 0 {
			res.Count("fault_zero_read", 1)
		}
		if plan.DataEOF && rd.EOFDelivered {
			res.Count("fault_data_with_eof", 1)
		}
	}
	if mutated {
		res.Count("fault_byte_mutation", 1)
	}
}

var nastyBytes = gen.NastyBytes

func (e Engine) Run(t *simrt.Tape, c simrt.Case, x *simrt.Ctx) *simrt.Result {
	res := simrt.NewResult()
	simctl.Begin(simctl.Sorted, c.Seed) // the dependency's clock-seeded PRNGs follow the case seed: exact replay
	B := ebnflexer.VerifBufferSize
	switch c.Args[0] {
	case kText, kTruncAll:
		s := gen.GenSpec(t, gen.GenOpts{AllowInvalid: true})
		st := gen.Style{SepSeed: uint64(t.Draw(1 << 30)), DropSemis: t.Chance(1, 3), FinalNL: t.Draw(4), PadKind: t.Draw(5), Tight: t.Chance(1, 4)}
		if c.Args[0] == kText && t.Chance(1, 2) {
			k := 1 + t.Draw(2)
			st.LeadPad = max(0, k*B-200+t.Draw(400))
		} else {
			t.Draw(1)
		}
		lay := gen.Render(s, st)
		if err := lay.Check(s); err != nil {
			panic("layout self-check: " + err.Error())
		}
		text := lay.Text
		x.Tracef("spec mode=%s text(%d bytes) tail=%q", s.Mode, len(text), string(text[max(0, len(text)-120):]))

		if c.Args[0] == kTruncAll {
			// end of input at every byte of a small specification, for two entry points
			if len(text) > 1500 {
				res.Skipped++
				return res
			}
			for cut := 0; cut <= len(text); cut++ {
				for _, which := range []int{0, 1 + cut%4} {
					cr := callEntry(which, text[:cut], simrt.FullPlan())
					res.Evals++
					countFaults(res, simrt.FullPlan(), cr.reader, cut, false)
					res.Key(cr.name, "trunc", faultPlace(simrt.FullPlan(), lay, cut, B), outcomeClass(cr))
					if cls, msg := judge(cr, cut, B); cls != "" {
						if id := knownFinding(x, cls); id != "" {
							res.Known[id]++
							continue
						}
						x.Tracef("truncated at %d: %q", cut, string(text[max(0, cut-60):cut]))
						return res.Fail(cls, "input truncated at byte %d of %d: %s", cut, len(text), msg)
					}
				}
			}
			return res
		}

		nEval := 10
		for i := 0; i < nEval; i++ {
			buf := append([]byte(nil), text...)
			cut := -1
			mutated := false
			switch t.Draw(4) {
			case 0: // truncation at an arbitrary instant
				cut = t.Draw(len(buf) + 1)
				if t.Chance(1, 3) && len(lay.Lexemes) > 0 { // bias: inside or right after a token
					l := lay.Lexemes[t.Draw(len(lay.Lexemes))]
					cut = l.Start + t.Draw(l.Len+1)
				} else {
					t.Draw(1)
					t.Draw(1)
				}
				buf = buf[:cut]
			case 1: // byte mutations
				n := 1 + t.Draw(3)
				for j := 0; j < n && len(buf) > 0; j++ {
					at := t.Draw(len(buf))
					nb := nastyBytes[t.Draw(len(nastyBytes))]
					switch t.Draw(3) {
					case 0:
						buf = append(buf[:at:at], append(append([]byte(nil), nb...), buf[at:]...)...)
					case 1:
						buf[at] = nb[0]
					default:
						buf = append(buf[:at:at], buf[at+1:]...)
					}
				}
				mutated = true
			default:
				t.Draw(1)
			}
			plan := drawPlan(t, len(buf), B)
			which := t.Draw(len(entryNames))
			cr := callEntry(which, buf, plan)
			res.Evals++
			countFaults(res, plan, cr.reader, cut, mutated)
			if cut >= 0 || mutated || plan.Kind() != "full" {
				res.Key(cr.name, plan.Kind(), faultPlace(plan, lay, cut, B), mutated, outcomeClass(cr))
			}
			if cls, msg := judge(cr, len(buf), B); cls != "" {
				if id := knownFinding(x, cls); id != "" {
					res.Known[id]++
					continue
				}
				x.Tracef("entry=%s plan=%s cut=%d mutated=%v", cr.name, plan, cut, mutated)
				x.Tracef("input tail: %q", string(buf[max(0, len(buf)-160):]))
				res.Violation = &simrt.Violation{Class: cls, Message: fmt.Sprintf("%s [reader plan %s, cut=%d, mutated=%v, %d bytes]", msg, plan, cut, mutated, len(buf)),
					Detail: map[string]any{"plan": plan, "cut": cut, "input_tail": string(buf[max(0, len(buf)-200):])}}
				return res
			}
			if cr.elapsed > 20*time.Second {
				res.Count("slow_calls_over_20s", 1)
			}
		}
		if c.Index%40 == 0 {
			res.Sample = map[string]any{"kind": "text", "mode": s.Mode, "text_excerpt": string(text[:min(len(text), 200)]), "evaluations": nEval}
		}

	case kLongLexeme:
		// one lexeme whose length is at, just below or just above 1x, 2x, 3x the buffer size
		kinds := []string{"string_literal", "regex", "ident", "token_name", "line_comment", "block_comment", "blanks", "predef"}
		for _, kind := range kinds {
			for kd := 0; kd < 21; kd++ {
				k, d := 1+kd/7, -3+kd%7
				n := k*B + d
				var text string
				body := strings.Repeat("a", n)
				switch kind {
				case "string_literal":
					text = "grammar g;\nstart = \"" + body[:n-2] + "\";\n"
				case "regex":
					text = "grammar g;\nT = /" + body[:n-2] + "/;\nstart = T;\n"
				case "ident":
					text = "grammar g;\nstart = " + body + ";\n" + body + " = \"x\";\n"
				case "token_name":
					nm := strings.Repeat("A", n)
					text = "grammar g;\n" + nm + " = \"x\";\nstart = " + nm + ";\n"
				case "line_comment":
					text = "grammar g;\n//" + body[:n-2] + "\nstart = \"x\";\n"
				case "block_comment":
					text = "grammar g;\n/*" + body[:n-4] + "*/\nstart = \"x\";\n"
				case "blanks":
					text = "grammar g;\n" + strings.Repeat(" ", n) + "start = \"x\";\n"
				case "predef":
					text = "grammar g;\nT = $" + strings.Repeat("A", n-1) + ";\nstart = T;\n"
				}
				lead := t.Draw(B)
				buf := []byte(strings.Repeat(" ", lead) + text)
				for _, which := range []int{0, 1, 3} {
					cr := callEntry(which, buf, simrt.FullPlan())
					res.Evals++
					res.Key(cr.name, "long_lexeme", kind, k, d, outcomeClass(cr))
					if cls, msg := judge(cr, len(buf), B); cls != "" {
						if id := knownFinding(x, cls); id != "" {
							res.Known[id]++
							continue
						}
						res.Violation = &simrt.Violation{Class: cls + "[long_" + kind + "]", Message: fmt.Sprintf("a %s lexeme of %d bytes (%d*B%+d, B=%d) after %d leading blanks: %s", kind, n, k, d, B, lead, msg), Detail: map[string]any{"kind": kind, "length": n, "lead": lead}}
						return res
					}
				}
			}
		}

	case kResourceProbe:
		// fixed witnesses of size-related behaviour of the regex -> DFA pipeline (block sizes of the
		// dependency's queue and stack are 64 and 1024)
		for _, p := range []string{"a{63}", "a{64}", "a{65}", "(ab){32}c", "[a-c]{64}", "a{128}", "x{1024}y?"} {
			text := []byte("grammar g;\nTK = /" + p + "/;\nstart = TK;\n")
			cr := callEntry(5, text, simrt.FullPlan())
			res.Evals++
			res.Key("pipeline_witness", p, outcomeClass(cr))
			if cls, msg := judge(cr, len(text), B); cls != "" {
				if id := knownFinding(x, cls); id != "" {
					res.Known[id]++
					continue
				}
				res.Violation = &simrt.Violation{Class: cls + "[witness]", Message: fmt.Sprintf("specification with token pattern /%s/: %s", p, msg), Detail: map[string]any{"text": string(text)}}
				return res
			}
		}
		// Patterns whose cost explodes are probed in a memory-limited child process (1 GB, 30 s), one
		// pattern per process, instead of in a worker: bracket ranges over a large part of the code
		// space are expanded into one transition per code point.
		exe, err := os.Executable()
		if err != nil {
			panic(err)
		}
		// Three families: bracket ranges over a large part of the code space; repetition counts whose
		// VALUE (not length) drives the cost; repetition counts that do not fit a machine integer (the
		// cost of these must not depend on what the digits wrap around to).
		probes := []struct{ p, tag string }{
			{`[a-z]+`, "control"}, {`[\x0100-\x2000]`, "control"}, {`a{3,40}b{12}`, "control"},
			{`[a-\x0010FFFF]*`, "wide_range"}, {`[\x00010000-\x0010FFFF]`, "wide_range"},
			{`a{1000000000}`, "repeat_count"}, {`a{9223372036854775807}`, "repeat_count"},
			{`x{1,9223372036854775808}`, "repeat_overflow"}, {`a{9223372036854775808}`, "repeat_overflow"},
			{`ab{18446744073709551615}c`, "repeat_overflow"}, {`[0-9]{0,9223372036854775808}`, "repeat_overflow"},
			{`(x|y){13835058055282163712}?`, "repeat_overflow"}, {`a{2,99999999999999999999999999}`, "repeat_overflow"},
			{`a{18446744073709551617,}`, "repeat_overflow"},
			// nesting depth: the regex parsers recurse once per open group
			{"@nest:2000", "control"}, {"@nest:2000000", "deep_nesting"},
		}
		for _, pr := range probes {
			p := pr.p
			cmd := exec.Command("sh", "-c", "ulimit -v 1000000; exec timeout -s KILL 45 \"$0\" -pattern-probe \"$1\"", exe, p)
			var out bytes.Buffer
			cmd.Stdout, cmd.Stderr = &out, &out
			done := make(chan error, 1)
			if err := cmd.Start(); err != nil {
				panic(err)
			}
			go func() { done <- cmd.Wait() }()
			outcome := "ok"
			select {
			case err := <-done:
				if err != nil {
					outcome = "died"
					if strings.Contains(out.String(), "stack overflow") || strings.Contains(out.String(), "goroutine stack exceeds") {
						outcome = "stack_overflow"
					} else if strings.Contains(out.String(), "out of memory") {
						outcome = "out_of_memory"
					} else if strings.Contains(out.String(), "panic:") || strings.Contains(out.String(), "fatal error:") {
						outcome = "panic"
					}
				}
			case <-time.After(30 * time.Second):
				cmd.Process.Kill()
				outcome = "timeout"
			}
			res.Evals++
			res.Key("resource_probe", p)
			res.Volatile["resource_probe:"+outcome]++ // out_of_memory or timeout, whichever comes first on this machine
			if outcome != "ok" {
				cls := "resource_exhaustion:" + outcome + "[" + pr.tag + "]"
				msg := fmt.Sprintf("compiling the pattern %q exhausts 1 GB of memory / 30 s (%s): %s", p, outcome, clip(firstLineWith(out.String(), "fatal error")))
				if outcome == "panic" {
					cls = "panic:pattern_probe[" + pr.tag + "]@" + panicSiteFrom(out.String(), true)
					msg = fmt.Sprintf("compiling the pattern %q dies with a Go panic: %s", p, clip(out.String()))
				}
				if id := knownFinding(x, cls); id != "" {
					res.Known[id]++
					continue
				}
				res.Violation = &simrt.Violation{Class: cls, Message: msg, Detail: map[string]any{"pattern": p}}
				return res
			}
		}

	case kManySymbols:
		// specifications with many distinct terminals, non-terminals and productions: the symbol
		// tables grow through several resizes (sizes in the fixtures never reach the first one)
		for i := 0; i < 8; i++ {
			n := 40 + t.Draw(180)
			style := t.Draw(4)
			salt := t.Draw(100000)
			var sb strings.Builder
			sb.WriteString("grammar many;\n")
			name := func(k int) string {
				switch style {
				case 0:
					return fmt.Sprintf("r%d", k+salt%1000)
				case 1:
					return fmt.Sprintf("x%d_", k*7+salt%100)
				case 2:
					return fmt.Sprintf("n%dt%d", salt%97, k)
				}
				return fmt.Sprintf("%c%c%d", 'a'+k%26, 'a'+(k/26)%26, salt%10)
			}
			nTok := t.Draw(n / 2)
			for k := 0; k < nTok; k++ {
				fmt.Fprintf(&sb, "T%d=\"t%d\";", k, k+salt%50)
				if k%8 == 7 {
					sb.WriteString("\n")
				}
			}
			sb.WriteString("start=" + name(0) + ";\n")
			for k := 0; k < n; k++ {
				// compact layout: the point is the number of symbols per text, not the spacing
				fmt.Fprintf(&sb, "%s=\"l%d\"%s", name(k), k+salt%50, name((k+1)%n))
				if nTok > 0 && k%2 == 0 {
					fmt.Fprintf(&sb, "|T%d", k%nTok)
				}
				if k%5 == 0 {
					fmt.Fprintf(&sb, "|(\"g%d\"%s)", k, name((k*5+1)%n))
				}
				sb.WriteString(";")
				if k%4 == 3 {
					sb.WriteString("\n")
				}
			}
			sb.WriteString("\n")
			text := []byte(sb.String())
			cr, hung := callEntryBounded(0, text, simrt.FullPlan(), 30*time.Second)
			res.Evals++
			if hung {
				res.Violation = &simrt.Violation{Class: "hang:spec.Parse[many_symbols]", Message: fmt.Sprintf("spec.Parse did not return within 30 s of CPU time on a specification with %d rules and %d tokens (name style %d, %d bytes)", n, nTok, style, len(text)), Detail: map[string]any{"text": string(text)}}
				return res
			}
			res.Key("many_symbols", style, n/40, outcomeClass(cr))
			if cls, msg := judge(cr, len(text), B); cls != "" {
				if id := knownFinding(x, cls); id != "" {
					res.Known[id]++
					continue
				}
				res.Violation = &simrt.Violation{Class: cls + "[many_symbols]", Message: fmt.Sprintf("specification with %d rules and %d tokens (name style %d): %s", n, nTok, style, msg), Detail: map[string]any{"text_head": string(text[:min(len(text), 300)])}}
				return res
			}
		}
		// fill levels: many small name sets whose sizes sweep densely through the range in which hash
		// tables of this size class are resized (a probe sequence that cannot find a free slot, a
		// resize that is skipped or done twice shows only at particular fill levels and hash values)
		nFill := 150
		if x.Tier == "thorough" {
			nFill = 600
		}
		for i := 0; i < nFill; i++ {
			nR, nT := 20+t.Draw(110), t.Draw(110)
			salt := t.Draw(1 << 20)
			var sb strings.Builder
			sb.WriteString("grammar fill;\n")
			for k := 0; k < nT; k++ {
				fmt.Fprintf(&sb, "T%x_%d=\"t%d_%x\";", salt&0xfff, k, k, salt>>8)
			}
			fmt.Fprintf(&sb, "\nstart=r%x_0;\n", salt&0xffff)
			for k := 0; k < nR; k++ {
				fmt.Fprintf(&sb, "r%x_%d=\"l%d_%x\"", salt&0xffff, k, k, salt&0xff)
				if k+1 < nR {
					fmt.Fprintf(&sb, " r%x_%d", salt&0xffff, k+1)
				}
				if nT > 0 {
					fmt.Fprintf(&sb, "|T%x_%d", salt&0xfff, k%nT)
				}
				sb.WriteString(";")
			}
			sb.WriteString("\n")
			text := []byte(sb.String())
			cr, hung := callEntryBounded(0, text, simrt.FullPlan(), 30*time.Second)
			res.Evals++
			if hung {
				res.Violation = &simrt.Violation{Class: "hang:spec.Parse[fill_level]", Message: fmt.Sprintf("spec.Parse did not return within 30 s of CPU time on a specification with %d rules and %d tokens (%d bytes)", nR, nT, len(text)), Detail: map[string]any{"text": string(text)}}
				return res
			}
			res.Key("fill_level", nR/8, nT/8, outcomeClass(cr))
			res.Count("fill_level_specifications", 1)
			if cls, msg := judge(cr, len(text), B); cls != "" {
				if id := knownFinding(x, cls); id != "" {
					res.Known[id]++
					continue
				}
				res.Violation = &simrt.Violation{Class: cls + "[fill_level]", Message: fmt.Sprintf("specification with %d rules and %d tokens: %s", nR, nT, msg), Detail: map[string]any{"text": string(text)}}
				return res
			}
		}

	case kPattern:
		n := 40
		for i := 0; i < n; i++ {
			p, shape := gen.GenPattern(t)
			if os.Getenv("VERIF_DEBUG") != "" {
				fmt.Fprintf(os.Stderr, "PATTERN %q (%s)\n", p, shape)
			}
			for which, name := range []string{"nfa.Parse", "regex/ast.Parse+ToDFA"} {
				var gotNil bool
				var err error
				var pv any
				func() {
					defer func() {
						if r := recover(); r != nil {
							pv = r
						}
					}()
					if which == 0 {
						a, e := nfa.Parse(p)
						gotNil, err = a == nil, e
					} else {
						a, e := regexast.Parse(p)
						gotNil, err = a == nil, e
						if e == nil && a != nil && len(p) < 40 {
							if d := a.ToDFA(); d == nil {
								gotNil = true
							}
						}
					}
				}()
				res.Evals++
				cr := callResult{name: name, gotNil: gotNil, err: err, panicV: pv}
				res.Key(name, shape, outcomeClass(cr))
				if cls, msg := judge(cr, 0, B); cls != "" {
					x.Tracef("pattern %q (%s)", p, shape)
					res.Violation = &simrt.Violation{Class: cls + "[" + shape + "]", Message: fmt.Sprintf("pattern %q: %s", p, msg), Detail: map[string]any{"pattern": p}}
					return res
				}
			}
			// the same pattern inside a specification, through the whole library pipeline
			if isRegexLexeme(p) {
				text := []byte("grammar g;\nTK = /" + p + "/;\nstart = TK;\n")
				cr := callEntry(5, text, simrt.FullPlan())
				res.Evals++
				res.Key("pipeline", shape, outcomeClass(cr))
				if cls, msg := judge(cr, len(text), B); cls != "" {
					if id := knownFinding(x, cls); id != "" {
						res.Known[id]++
						continue
					}
					res.Violation = &simrt.Violation{Class: cls + "[" + shape + "]", Message: fmt.Sprintf("specification with token pattern /%s/: %s", p, msg), Detail: map[string]any{"text": string(text)}}
					return res
				}
			}
		}
		if c.Index%10 == 0 {
			p, shape := gen.GenPattern(simrt.NewTape(c.Seed))
			res.Sample = map[string]any{"kind": "patterns", "first_pattern": p, "shape": shape, "patterns": n}
		}

	case kCLI:
		if e.EmergeBin == "" {
			panic("VERIF_EMERGE_BIN not set")
		}
		dir, err := os.MkdirTemp("", "c14cli-")
		if err != nil {
			panic(err)
		}
		defer os.RemoveAll(dir)
		good := filepath.Join(dir, "good.grammar")
		os.WriteFile(good, []byte("grammar cli;\nNUM = /[0-9]+/;\nstart = NUM \"+\" NUM;\n"), 0o644)
		bad := filepath.Join(dir, "bad.grammar")
		os.WriteFile(bad, []byte("grammar cli;\nstart = UNDEFINED ;\n"), 0o644)
		syn := filepath.Join(dir, "syntax.grammar")
		os.WriteFile(syn, []byte("grammar cli;\nstart = = ;\n"), 0o644)
		bin := filepath.Join(dir, "binary.grammar")
		os.WriteFile(bin, []byte{0xff, 0xfe, 0, 1, 2, 'g', 'r'}, 0o644)
		pat := filepath.Join(dir, "pattern.grammar")
		os.WriteFile(pat, []byte("grammar cli;\nTK = /[z-a]/;\nstart = TK;\n"), 0o644)
		lalr := filepath.Join(dir, "lalrpanic.grammar")
		os.WriteFile(lalr, []byte("grammar cli;\nstart = start;\n@left \"+\";\n"), 0o644)
		// specifications that make SEVERAL stages of the generator fail in one run (scanner automaton
		// and parsing table are built in different stages)
		multi := filepath.Join(dir, "multistage.grammar")
		os.WriteFile(multi, []byte([]string{
			"grammar cli;\nID = /[a-z/;\nstart = start \"+\" start | ID;\n",
			"grammar cli;\nAA = /[a-z]+/;\nBB = /[a-c]+/;\nstart = start AA start | BB;\n",
			"grammar cli;\nAA = /a{3,1}/;\nBB = /ab*/;\nCC = /a+/;\nstart = AA | BB | CC | start start;\n",
		}[t.Draw(3)]), 0o644)
		empty := filepath.Join(dir, "empty.grammar")
		os.WriteFile(empty, nil, 0o644)
		os.Mkdir(filepath.Join(dir, "adir"), 0o755)
		os.Mkdir(filepath.Join(dir, "out"), 0o755)
		os.WriteFile(filepath.Join(dir, "afile"), []byte("x"), 0o644)

		type cl struct {
			class    string
			args     []string
			wantFail bool // must exit non-zero with a message
		}
		all := []cl{
			{"unknown_flag", []string{"-bogus", good}, true},
			{"unknown_flag_only", []string{"--nope"}, true},
			{"flag_without_value", []string{"-out"}, true},
			{"flag_after_file", []string{good, "-name"}, false},
			{"bool_flag_bad_value", []string{"-debug=maybe", good}, true},
			{"no_arguments", nil, true},
			{"missing_file", []string{filepath.Join(dir, "nope.grammar")}, true},
			{"directory_as_file", []string{filepath.Join(dir, "adir")}, true},
			{"semantic_error", []string{"-out", filepath.Join(dir, "out"), bad}, true},
			{"syntax_error", []string{"-out", filepath.Join(dir, "out"), syn}, true},
			{"binary_garbage", []string{"-out", filepath.Join(dir, "out"), bin}, true},
			{"empty_file", []string{"-out", filepath.Join(dir, "out"), empty}, true},
			{"bad_pattern", []string{"-out", filepath.Join(dir, "out"), pat}, true},
			{"several_stages_fail", []string{"-out", filepath.Join(dir, "out"), "-name", "multi", multi}, true},
			{"conflict_without_terminal_and_directive", []string{"-out", filepath.Join(dir, "out"), "-name", "lalrp", lalr}, true},
			{"out_missing", []string{"-out", filepath.Join(dir, "nowhere"), good}, true},
			{"out_is_file", []string{"-out", filepath.Join(dir, "afile"), good}, true},
			{"bad_name_keyword", []string{"-out", filepath.Join(dir, "out"), "-name", "func", good}, true},
			{"bad_name_digit", []string{"-out", filepath.Join(dir, "out"), "-name", "4ever", good}, true},
			{"bad_name_slash", []string{"-out", filepath.Join(dir, "out"), "-name", "a/b", good}, true},
			{"dash_as_file", []string{"-"}, true},
			{"double_dash_then_flag", []string{"--", "-debug"}, true},
			{"help", []string{"-help"}, false},
			{"h", []string{"-h"}, false},
			{"version", []string{"-version"}, false},
			{"success", []string{"-out", filepath.Join(dir, "out"), "-name", "okpkg", good}, false},
		}
		// tape-chosen subset plus tape-built random command lines
		// every class once, starting at a tape-chosen one
		off := t.Draw(len(all))
		for i := range all {
			k := all[(i+off)%len(all)]
			if k.class == "success" {
				os.RemoveAll(filepath.Join(dir, "out", "okpkg"))
			}
			if v := e.runCLI(res, x, dir, k.class, k.args, k.wantFail); v {
				return res
			}
		}
		flags := []string{"-out", "-name", "-debug", "-verbose", "-help", "-version", "-x", "--", "-out=", "-name=", "-debug=false", "-verbose=1", "", " ", "-", "--out", "-out=" + dir}
		values := []string{good, bad, dir, "", "nonexistent", "-1", "a b", "é", strings.Repeat("x", 300)}
		for i := 0; i < 8; i++ {
			n := t.Draw(5)
			var args []string
			for j := 0; j < n; j++ {
				if t.Chance(1, 2) {
					args = append(args, flags[t.Draw(len(flags))])
				} else {
					args = append(args, values[t.Draw(len(values))])
				}
			}
			if v := e.runCLI(res, x, dir, "random", args, false); v {
				return res
			}
		}
		if c.Index%4 == 0 {
			res.Sample = map[string]any{"kind": "cli", "classes": len(all)}
		}
	}
	return res
}

// runCLI runs the real binary once. It returns true when a violation was recorded.
func (e Engine) runCLI(res *simrt.Result, x *simrt.Ctx, dir, class string, args []string, wantFail bool) bool {
	cmd := exec.Command(e.EmergeBin, args...)
	cmd.Dir = dir
	cmd.Env = append(os.Environ(), "NO_COLOR=1")
	var stdout, stderr bytes.Buffer
	cmd.Stdout, cmd.Stderr = &stdout, &stderr
	done := make(chan error, 1)
	if err := cmd.Start(); err != nil {
		panic(err)
	}
	go func() { done <- cmd.Wait() }()
	var err error
	select {
	case err = <-done:
	case <-time.After(60 * time.Second):
		cmd.Process.Kill()
		res.Fail("cli_hang:"+class, "emerge %q did not exit within 60 s", args)
		return true
	}
	res.Evals++
	code := 0
	if err != nil {
		if ee, ok := err.(*exec.ExitError); ok {
			code = ee.ExitCode()
		} else {
			panic(err)
		}
	}
	res.Key("cli", class, code)
	res.Count("cli_runs", 1)
	all := stdout.String() + stderr.String()
	if strings.Contains(all, "goroutine ") && (strings.Contains(all, "panic:") || strings.Contains(all, "fatal error:")) {
		if id := knownFinding(x, "panic:cli@"+panicSiteFrom(all[strings.Index(all, "goroutine "):], true)); id != "" {
			res.Known[id]++
			return false
		}
		x.Tracef("emerge %q -> exit %d\n%s", args, code, clip(all))
		res.Violation = &simrt.Violation{Class: "cli_stack_trace:" + class, Message: fmt.Sprintf("emerge %q printed a Go stack trace (exit status %d): %s", args, code, clip(firstLineWith(all, "panic:"))), Detail: map[string]any{"args": args, "exit": code}}
		return true
	}
	if code < 0 {
		res.Fail("cli_killed:"+class, "emerge %q was killed by a signal", args)
		return true
	}
	if wantFail {
		if code == 0 {
			res.Fail("cli_exit_zero_on_failure:"+class, "emerge %q exited with status 0 although the run cannot have succeeded; output: %s", args, clip(all))
			return true
		}
		if strings.TrimSpace(stderr.String())+strings.TrimSpace(stdout.String()) == "" {
			res.Fail("cli_silent_failure:"+class, "emerge %q exited with status %d without any message", args, code)
			return true
		}
	}
	return false
}

// PatternProbe compiles one pattern with both back ends (run in a memory-limited child process).
func PatternProbe(p string) {
	// "@nest:N" stands for N nested groups around one character (too long for a command line)
	if strings.HasPrefix(p, "@nest:") {
		n, _ := strconv.Atoi(strings.TrimPrefix(p, "@nest:"))
		p = strings.Repeat("(", n) + "a" + strings.Repeat(")", n)
	}
	if n, err := nfa.Parse(p); err == nil && n != nil {
		n.ToDFA()
	}
	if a, err := regexast.Parse(p); err == nil && a != nil {
		a.ToDFA()
	}
}

// compactBelow cuts a line-structured specification after the last complete line below limit bytes.
func compactBelow(text []byte, limit int) []byte {
	if len(text) <= limit {
		return text
	}
	cut := bytes.LastIndexByte(text[:limit], '\n')
	return text[:cut+1]
}

func clip(s string) string {
	if len(s) > 600 {
		return s[:600] + "…"
	}
	return s
}

func firstLineWith(s, sub string) string {
	for _, l := range strings.Split(s, "\n") {
		if strings.Contains(l, sub) {
			return l
		}
	}
	return s
}

func isRegexLexeme(p string) bool {
	if p == "" {
		return false
	}
	esc := false
	for i := 0; i < len(p); i++ {
		ch := p[i]
		if ch < 0x20 || ch > 0x7e {
			return false
		}
		if esc {
			esc = false
			continue
		}
		if ch == '\\' {
			esc = true
			continue
		}
		if ch == '/' {
			return false
		}
	}
	// must not start a comment and must not end in an escaped slash (over-trimmed by the scanner)
	return !esc && p[0] != '*' && p[0] != '/' && !strings.HasSuffix(p, `\/`)
}
