package simrt

import (
	"bufio"
	"encoding/json"
	"flag"
	"fmt"
	"os"
	"os/exec"
	"path/filepath"
	"runtime"
	"runtime/debug"
	"sort"
	"strconv"
	"strings"
	"sync/atomic"
	"syscall"
	"time"
)

// Case is one simulated run: a tape seed plus fixed structural arguments (sweep chunk, corpus index).
type Case struct {
	Index int    `json:"index"`
	Seed  uint64 `json:"seed"`
	Args  []int  `json:"args,omitempty"`
	Label string `json:"label,omitempty"`
}

// Violation is an oracle failure. Class identifies the oracle and the finding signature; the
// minimiser only keeps candidates that fail with the same Class.
type Violation struct {
	Class   string         `json:"class"`
	Message string         `json:"message"`
	Detail  map[string]any `json:"detail,omitempty"`
}

// Result is what one case reports.
type Result struct {
	Evals    int            `json:"evals"`
	Keys     []uint64       `json:"keys,omitempty"`     // coverage keys of distinct non-trivial sub-cases
	Counters map[string]int `json:"counters,omitempty"` // fault kinds fired, probes hit, ...
	Known    map[string]int `json:"known,omitempty"`    // known-finding id -> failing sub-cases attributed to it
	// Volatile holds observations that legitimately differ between two runs of the same seed
	// (fresh-process tiers, race reports de-duplicated per process): they are reported in the
	// evidence but excluded from the determinism digest. Keys prefixed "known:" are merged into Known.
	Volatile  map[string]int `json:"volatile,omitempty"`
	Violation *Violation     `json:"violation,omitempty"`
	Sample    any            `json:"sample,omitempty"`
	SimNs     int64          `json:"sim_ns,omitempty"` // simulated time covered
	Skipped   int            `json:"skipped,omitempty"`
}

func NewResult() *Result {
	return &Result{Counters: map[string]int{}, Known: map[string]int{}, Volatile: map[string]int{}}
}

func (r *Result) Count(name string, n int) { r.Counters[name] += n }
func (r *Result) Key(parts ...any)         { r.Keys = append(r.Keys, HashString(fmt.Sprint(parts...))) }
func (r *Result) Fail(class, format string, a ...any) *Result {
	if r.Violation == nil {
		r.Violation = &Violation{Class: class, Message: fmt.Sprintf(format, a...)}
	}
	return r
}

// Meta describes an engine for the evidence file.
type Meta struct {
	Level       string   // exploration | fault_enumeration
	Rule        string   // how cases are generated and what makes one distinct/non-trivial
	Assumptions []string // trusted base
	RealCode    []string // components running real code
	Stubs       []string // components that are stubs
	FaultKinds  []string // counters that are fault kinds (reported as "faults_fired")
	CaseTimeout time.Duration
	// FreshProcessShrink: a candidate tape is only trusted when it fails in a fresh process
	// (engines whose observations depend on process-wide state such as the race detector's
	// shadow memory and report de-duplication).
	FreshProcessShrink bool
	// ShrinkBudget bounds the re-executions spent on minimising one violation (default 400).
	ShrinkBudget int
}

// Engine is one property's simulated check.
type Engine interface {
	ID() string
	Meta() Meta
	Plan(tier string, seed uint64) []Case
	Run(t *Tape, c Case, x *Ctx) *Result
}

// Ctx is handed to every Run.
type Ctx struct {
	Tier   string
	Known  []KnownFinding
	Replay bool // running a replay/minimisation: engines may record a readable trace
	Trace  []string
}

func (x *Ctx) Tracef(format string, a ...any) {
	if x.Replay && len(x.Trace) < 400 {
		x.Trace = append(x.Trace, fmt.Sprintf(format, a...))
	}
}

// KnownStatus reports whether a finding id is listed with status "known".
func (x *Ctx) IsKnown(id string) bool {
	for _, k := range x.Known {
		if k.ID == id && k.Status == "known" {
			return true
		}
	}
	return false
}

type KnownFinding struct {
	ID          string `json:"id"`
	Property    string `json:"property"`
	Status      string `json:"status"` // known | fixed
	Signature   string `json:"signature"`
	Commit      string `json:"commit,omitempty"`
	Description string `json:"description"`
}

type knownFile struct {
	Findings []KnownFinding `json:"findings"`
}

// ReplayFile is what a VIOLATION line points at.
type ReplayFile struct {
	Property  string     `json:"property"`
	Tier      string     `json:"tier"`
	VerifSeed uint64     `json:"verif_seed"`
	Case      Case       `json:"case"`
	Tape      []int      `json:"tape"`
	Violation *Violation `json:"violation"`
	Trace     []string   `json:"trace,omitempty"`
	Sample    any        `json:"materialised,omitempty"`
	RepoTree  string     `json:"repo_tree,omitempty"`
	ShrinkLog string     `json:"shrink,omitempty"`
}

type workerLine struct {
	Start  *int    `json:"start,omitempty"`
	Hang   *int    `json:"hang,omitempty"`
	Index  int     `json:"index"`
	Result *Result `json:"result,omitempty"`
	Tape   []int   `json:"tape,omitempty"`
	Panic  string  `json:"panic,omitempty"`
}

// runCase executes one case, converting a panic that escapes the engine itself into an
// infrastructure failure (engines recover panics of the code under test on their own).
func runCase(e Engine, t *Tape, c Case, x *Ctx) (res *Result, harnessPanic string) {
	defer func() {
		if r := recover(); r != nil {
			harnessPanic = fmt.Sprintf("%v\n%s", r, debug.Stack())
		}
	}()
	return e.Run(t, c, x), ""
}

const (
	exitOK        = 0
	exitViolation = 1
	exitInfra     = 2
)

// Main is the entry point shared by all engine binaries.
func Main(engines ...Engine) {
	var (
		prop      = flag.String("property", "", "property id")
		tier      = flag.String("tier", "quick", "quick|thorough")
		seedFlag  = flag.Uint64("seed", 1, "VERIF_SEED")
		nworkers  = flag.Int("workers", runtime.NumCPU(), "worker processes")
		worker    = flag.Int("worker", -1, "internal: worker index")
		outFile   = flag.String("out", "", "internal: worker output file")
		evidence  = flag.String("evidence", "", "evidence file to write")
		replayDir = flag.String("replays", "", "directory for replay files")
		replay    = flag.String("replay", "", "replay file to re-execute")
		shrink    = flag.String("shrink", "", "internal: replay file to minimise in place")
		evalFile  = flag.String("eval", "", "internal: run the case of a replay file and print the outcome as JSON")
		knownPath = flag.String("known", "", "known findings file")
		repoTree  = flag.String("repo-tree", "", "tree hash of /repo working tree")
		scratch   = flag.String("scratch", os.TempDir(), "scratch directory")
		digest    = flag.Bool("digest", false, "print per-case outcome digests (determinism self-test)")
		only      = flag.Int("case", -1, "run only this case index (debug)")
	)
	flag.Parse()

	var e Engine
	for _, c := range engines {
		if c.ID() == *prop {
			e = c
		}
	}
	if e == nil {
		fmt.Fprintf(os.Stderr, "unknown property %q\n", *prop)
		os.Exit(exitInfra)
	}

	x := &Ctx{Tier: *tier}
	if *knownPath != "" {
		b, err := os.ReadFile(*knownPath)
		if err != nil {
			fmt.Fprintf(os.Stderr, "known findings: %v\n", err)
			os.Exit(exitInfra)
		}
		var kf knownFile
		if err := json.Unmarshal(b, &kf); err != nil {
			fmt.Fprintf(os.Stderr, "known findings: %v\n", err)
			os.Exit(exitInfra)
		}
		for _, k := range kf.Findings {
			if k.Property == e.ID() {
				x.Known = append(x.Known, k)
			}
		}
	}

	switch {
	case *evalFile != "":
		os.Exit(doEval(e, x, *evalFile))
	case *shrink != "":
		os.Exit(doShrink(e, x, *shrink))
	case *replay != "":
		os.Exit(doReplay(e, x, *replay))
	case *worker >= 0:
		os.Exit(doWorker(e, x, *tier, *seedFlag, *worker, *nworkers, *outFile, *only))
	default:
		os.Exit(coordinate(e, x, coordOpts{
			tier: *tier, seed: *seedFlag, nworkers: *nworkers, evidence: *evidence,
			replayDir: *replayDir, knownPath: *knownPath, repoTree: *repoTree, scratch: *scratch,
			digest: *digest, only: *only,
		}))
	}
}

func doWorker(e Engine, x *Ctx, tier string, seed uint64, w, n int, out string, only int) int {
	f, err := os.Create(out)
	if err != nil {
		fmt.Fprintln(os.Stderr, err)
		return exitInfra
	}
	bw := bufio.NewWriter(f)
	enc := json.NewEncoder(bw)
	timeout := e.Meta().CaseTimeout
	if timeout == 0 {
		timeout = 60 * time.Second
	}
	if d, err := time.ParseDuration(os.Getenv("VERIF_CASE_TIMEOUT")); err == nil && d > 0 {
		timeout = d // testing the watchdog itself
	}
	if sc, err := strconv.Atoi(os.Getenv("VERIF_TIMEOUT_SCALE")); err == nil && sc > 1 {
		timeout *= time.Duration(sc)
	}
	var current atomic.Int64
	var startedAt, cpuAtStart atomic.Int64
	current.Store(-1)
	// The watchdog budgets a case in CPU time of this process, not in wall time: on a busy machine a
	// case that is merely slow must not be taken for one that does not terminate. A case that is
	// blocked (no CPU consumed for a long stretch of wall time) or far beyond any plausible wall time
	// is stopped as well.
	go func() {
		var lastCPU time.Duration
		lastProgress := time.Now()
		lastCase := int64(-1)
		for {
			time.Sleep(500 * time.Millisecond)
			c := current.Load()
			if c < 0 {
				lastCase = -1
				continue
			}
			cpu := processCPU()
			if c != lastCase || cpu-lastCPU > 50*time.Millisecond {
				lastCase, lastCPU, lastProgress = c, cpu, time.Now()
			}
			wall := time.Since(time.Unix(0, startedAt.Load()))
			used := cpu - time.Duration(cpuAtStart.Load())
			blocked := wall > timeout && time.Since(lastProgress) > 60*time.Second
			if used > 2*timeout || blocked || wall > 20*timeout {
				// The watchdog never touches bw (owned by the main goroutine): it appends
				// the hang marker through a second handle and leaves.
				if g, err := os.OpenFile(out+".hang", os.O_CREATE|os.O_WRONLY, 0o644); err == nil {
					fmt.Fprintf(g, "%d\n", c)
					g.Close()
				}
				os.Exit(3)
			}
		}
	}()
	plan := e.Plan(tier, seed)
	todo := map[int]bool{}
	if b, err := os.ReadFile(out + ".todo"); err == nil {
		var idx []int
		json.Unmarshal(b, &idx)
		for _, i := range idx {
			todo[i] = true
		}
	}
	for _, c := range plan {
		if !todo[c.Index] {
			continue
		}
		os.WriteFile(out+".cur", []byte(fmt.Sprint(c.Index)), 0o644)
		startedAt.Store(time.Now().UnixNano())
		cpuAtStart.Store(int64(processCPU()))
		current.Store(int64(c.Index))
		t := NewTape(c.Seed)
		res, hp := runCase(e, t, c, x)
		current.Store(-1)
		if res != nil {
			// coverage keys are a set: their order must not depend on map iteration in an engine
			sort.Slice(res.Keys, func(i, j int) bool { return res.Keys[i] < res.Keys[j] })
		}
		line := workerLine{Index: c.Index, Result: res, Panic: hp}
		if res != nil && res.Violation != nil {
			line.Tape = t.Out
		}
		if err := enc.Encode(&line); err != nil {
			fmt.Fprintln(os.Stderr, err)
			return exitInfra
		}
		bw.Flush()
	}
	bw.Flush()
	f.Close()
	os.Remove(out + ".cur")
	return exitOK
}

type coordOpts struct {
	tier      string
	seed      uint64
	nworkers  int
	evidence  string
	replayDir string
	knownPath string
	repoTree  string
	scratch   string
	digest    bool
	only      int
}

func selfArgs(e Engine, o coordOpts) []string {
	a := []string{"-property", e.ID(), "-tier", o.tier, "-seed", fmt.Sprint(o.seed)}
	if o.knownPath != "" {
		a = append(a, "-known", o.knownPath)
	}
	return a
}

func coordinate(e Engine, x *Ctx, o coordOpts) int {
	began := time.Now()
	meta := e.Meta()
	plan := e.Plan(o.tier, o.seed)
	if len(plan) == 0 {
		fmt.Fprintln(os.Stderr, "empty plan")
		return exitInfra
	}
	for i, c := range plan {
		if c.Index != i {
			fmt.Fprintln(os.Stderr, "plan indices must be 0..n-1")
			return exitInfra
		}
	}
	n := o.nworkers
	if n > len(plan) {
		n = len(plan)
	}
	if n < 1 {
		n = 1
	}
	exe, err := os.Executable()
	if err != nil {
		fmt.Fprintln(os.Stderr, err)
		return exitInfra
	}
	dir, err := os.MkdirTemp(o.scratch, "workers-")
	if err != nil {
		fmt.Fprintln(os.Stderr, err)
		return exitInfra
	}
	defer os.RemoveAll(dir)

	fmt.Printf("[%s] tier=%s seed=%d cases=%d workers=%d\n", e.ID(), o.tier, o.seed, len(plan), n)
	type wproc struct {
		cmd *exec.Cmd
		out string
	}
	infra := false
	var hangs, crashes []int
	pending := map[int]bool{}
	for i := range plan {
		if o.only < 0 || i == o.only {
			pending[i] = true
		}
	}
	var outs []string
	// Rounds: a worker that hangs or dies takes only its current case with it; the cases it had not
	// reached are redistributed in the next round.
	for round := 0; len(pending) > 0 && round < 8; round++ {
		var idxs []int
		for i := range pending {
			idxs = append(idxs, i)
		}
		sort.Ints(idxs)
		nw := n
		if nw > len(idxs) {
			nw = len(idxs)
		}
		procs := make([]wproc, nw)
		for w := 0; w < nw; w++ {
			out := filepath.Join(dir, fmt.Sprintf("r%dw%d.jsonl", round, w))
			var mine []int
			for k, i := range idxs {
				if k%nw == w {
					mine = append(mine, i)
				}
			}
			b, _ := json.Marshal(mine)
			os.WriteFile(out+".todo", b, 0o644)
			args := append(selfArgs(e, o), "-worker", fmt.Sprint(w), "-workers", fmt.Sprint(nw), "-out", out)
			cmd := exec.Command(exe, args...)
			cmd.Stdout = os.Stderr
			cmd.Stderr = os.Stderr
			if err := cmd.Start(); err != nil {
				fmt.Fprintln(os.Stderr, err)
				return exitInfra
			}
			procs[w] = wproc{cmd, out}
			outs = append(outs, out)
		}
		progress := false
		for w := range procs {
			err := procs[w].cmd.Wait()
			if b, herr := os.ReadFile(procs[w].out + ".hang"); herr == nil {
				var idx int
				fmt.Sscan(string(b), &idx)
				hangs = append(hangs, idx)
				delete(pending, idx)
				progress = true
			} else if err != nil {
				// the process died (fatal runtime error such as stack exhaustion or out of memory,
				// which recover() cannot catch): the case it was running is re-run alone below
				if b, cerr := os.ReadFile(procs[w].out + ".cur"); cerr == nil {
					var idx int
					fmt.Sscan(string(b), &idx)
					crashes = append(crashes, idx)
					delete(pending, idx)
					progress = true
					fmt.Fprintf(os.Stderr, "worker %d died in case %d: %v\n", w, idx, err)
				} else {
					fmt.Fprintf(os.Stderr, "worker %d: %v\n", w, err)
					infra = true
				}
			}
			// results written so far
			if f, err := os.Open(procs[w].out); err == nil {
				sc := bufio.NewScanner(f)
				sc.Buffer(make([]byte, 1<<20), 1<<30)
				for sc.Scan() {
					var l workerLine
					if json.Unmarshal(sc.Bytes(), &l) == nil {
						if pending[l.Index] {
							delete(pending, l.Index)
							progress = true
						}
					}
				}
				f.Close()
			}
		}
		if !progress {
			break
		}
	}
	// A case that exceeded its budget among fifteen other workers is run once more, alone and with
	// four times the budget, before anything is concluded: if it finishes, its result counts like
	// any other; only a case that does not finish then is a hang.
	var realHangs []int
	for _, h := range hangs {
		fmt.Fprintf(os.Stderr, "case %d exceeded the per-case budget; re-running alone with a larger budget\n", h)
		out := filepath.Join(dir, fmt.Sprintf("lone%d.jsonl", h))
		b, _ := json.Marshal([]int{h})
		os.WriteFile(out+".todo", b, 0o644)
		cmd := exec.Command(exe, append(selfArgs(e, o), "-worker", "0", "-workers", "1", "-out", out)...)
		cmd.Env = append(os.Environ(), "VERIF_TIMEOUT_SCALE=4")
		cmd.Stdout, cmd.Stderr = os.Stderr, os.Stderr
		err := cmd.Run()
		if _, herr := os.Stat(out + ".hang"); herr == nil {
			realHangs = append(realHangs, h)
		} else if err != nil {
			fmt.Fprintf(os.Stderr, "case %d: the worker re-running it alone died: %v\n", h, err)
			crashes = append(crashes, h)
		} else {
			outs = append(outs, out)
		}
	}
	slowRerun := len(hangs) - len(realHangs)
	hangs = realHangs

	procs := make([]wproc, len(outs))
	for i, out := range outs {
		procs[i] = wproc{nil, out}
	}

	results := make([]*workerLine, len(plan))
	for w := range procs {
		f, err := os.Open(procs[w].out)
		if err != nil {
			fmt.Fprintln(os.Stderr, err)
			return exitInfra
		}
		sc := bufio.NewScanner(f)
		sc.Buffer(make([]byte, 1<<20), 1<<30)
		for sc.Scan() {
			var l workerLine
			if err := json.Unmarshal(sc.Bytes(), &l); err != nil {
				fmt.Fprintf(os.Stderr, "worker %d output: %v\n", w, err)
				infra = true
				continue
			}
			ll := l
			results[l.Index] = &ll
		}
		f.Close()
	}

	// Merge in index order: the outcome is independent of the number of workers.
	total := NewResult()
	keys := map[uint64]struct{}{}
	var samples []any
	var violations []*workerLine
	missing := 0
	for i, l := range results {
		if l == nil {
			if o.only >= 0 && i != o.only {
				continue
			}
			missing++
			continue
		}
		if l.Panic != "" {
			fmt.Fprintf(os.Stderr, "HARNESS PANIC in case %d: %s\n", i, l.Panic)
			infra = true
			continue
		}
		r := l.Result
		total.Evals += r.Evals
		total.SimNs += r.SimNs
		total.Skipped += r.Skipped
		for _, k := range r.Keys {
			keys[k] = struct{}{}
		}
		for k, v := range r.Counters {
			total.Counters[k] += v
		}
		for k, v := range r.Known {
			total.Known[k] += v
		}
		for k, v := range r.Volatile {
			if strings.HasPrefix(k, "known:") {
				total.Known[strings.TrimPrefix(k, "known:")] += v
			} else {
				total.Counters[k] += v
			}
		}
		if r.Sample != nil && len(samples) < 4 {
			samples = append(samples, r.Sample)
		}
		if r.Violation != nil {
			violations = append(violations, l)
		}
		if o.digest {
			rc := *r
			rc.Volatile = nil
			if rc.Violation != nil {
				rc.Violation = &Violation{Class: rc.Violation.Class}
			}
			b, _ := json.Marshal(&rc)
			fmt.Printf("DIGEST %d %016x\n", i, HashString(string(b)))
			if os.Getenv("VERIF_DUMP") != "" {
				fmt.Printf("DUMP %d %s\n", i, string(b))
			}
		}
	}

	exit := exitOK
	reported := 0
	var violationNotes []string

	// Hangs: cases that did not finish even alone with four times the budget.
	if slowRerun > 0 {
		total.Counters["slow_cases_rerun_alone"] += slowRerun
	}
	for _, h := range hangs {
		c := plan[h]
		rf := &ReplayFile{Property: e.ID(), Tier: o.tier, VerifSeed: o.seed, Case: c, RepoTree: o.repoTree,
			Violation: &Violation{Class: "hang", Message: "case did not terminate within the budget (neither among other workers nor alone with four times the budget)"}}
		path := writeReplay(o.replayDir, rf, "")
		fmt.Printf("VIOLATION property=%s replay=%s\n  class=hang\n", e.ID(), path)
		violationNotes = append(violationNotes, "hang case "+fmt.Sprint(h))
		reported++
		exit = exitViolation
	}
	for _, h := range crashes {
		c := plan[h]
		rf := &ReplayFile{Property: e.ID(), Tier: o.tier, VerifSeed: o.seed, Case: c, RepoTree: o.repoTree,
			Violation: &Violation{Class: "crash", Message: "the process running this case died with a fatal runtime error (out of memory, stack exhaustion, ...: not a recoverable panic)"}}
		path := writeReplay(o.replayDir, rf, "")
		cmd := exec.Command(exe, append(selfArgs(e, o), "-replay", path)...)
		var crashOut strings.Builder
		cmd.Stdout, cmd.Stderr = &crashOut, &crashOut
		code := runWithTimeout(cmd, 10*time.Minute)
		// a fatal runtime error of Go exits with status 2 as well: tell it from harness trouble by its banner
		fatal := strings.Contains(crashOut.String(), "fatal error:") || strings.Contains(crashOut.String(), "goroutine stack exceeds")
		if l := crashOut.String(); len(l) > 0 {
			fmt.Fprintln(os.Stderr, firstLines(l, 6))
		}
		if (code != exitOK && code != exitViolation && code != exitInfra) || (code == exitInfra && fatal) {
			fmt.Printf("VIOLATION property=%s replay=%s\n  class=crash\n", e.ID(), path)
			violationNotes = append(violationNotes, "crash case "+fmt.Sprint(h))
			reported++
			exit = exitViolation
		} else {
			fmt.Fprintf(os.Stderr, "case %d did not crash when run alone (exit %d)\n", h, code)
			os.Remove(path)
			if code == exitOK {
				// the worker died of something outside the case (memory pressure on a busy machine): run
				// alone in a fresh process the case finishes and holds - that is its verdict
				total.Counters["worker_died_case_held_when_run_alone"]++
			} else {
				infra = true
			}
		}
	}
	if missing > len(hangs)+len(crashes) {
		fmt.Fprintf(os.Stderr, "%d cases were not run (their worker stopped early)\n", missing-len(hangs)-len(crashes))
		if len(hangs)+len(crashes) == 0 {
			infra = true
		}
	}

	// Violations: confirm, minimise and replay each class once, in fresh processes.
	seenClass := map[string]bool{}
	for _, l := range violations {
		cls := l.Result.Violation.Class
		if seenClass[cls] || reported >= 5 {
			continue
		}
		seenClass[cls] = true
		rf := &ReplayFile{Property: e.ID(), Tier: o.tier, VerifSeed: o.seed, Case: plan[l.Index], Tape: l.Tape,
			Violation: l.Result.Violation, RepoTree: o.repoTree}
		path := writeReplay(o.replayDir, rf, "")
		// minimise in a fresh process (bounded wall time)
		cmd := exec.Command(exe, append(selfArgs(e, o), "-shrink", path)...)
		cmd.Stdout, cmd.Stderr = os.Stderr, os.Stderr
		runWithTimeout(cmd, 15*time.Minute)
		// final confirmation in a fresh process
		cmd = exec.Command(exe, append(selfArgs(e, o), "-replay", path)...)
		cmd.Stdout, cmd.Stderr = nil, os.Stderr
		code := runWithTimeout(cmd, 10*time.Minute)
		if code == exitViolation {
			fmt.Printf("VIOLATION property=%s replay=%s\n", e.ID(), path)
			fmt.Printf("  class=%s\n  %s\n", cls, firstLine(l.Result.Violation.Message))
			violationNotes = append(violationNotes, cls)
			reported++
			exit = exitViolation
		} else {
			fmt.Fprintf(os.Stderr, "violation of case %d (%s) did not reproduce in a fresh process: flaky harness\n", l.Index, cls)
			infra = true
		}
	}

	// Known findings.
	var knownIDs []string
	for id := range total.Known {
		knownIDs = append(knownIDs, id)
	}
	sort.Strings(knownIDs)
	for _, id := range knownIDs {
		for _, k := range x.Known {
			if k.ID == id && k.Status == "known" {
				fmt.Printf("KNOWN-FINDING: property=%s %s [%s; %d failing sub-cases attributed]\n", e.ID(), k.Description, id, total.Known[id])
			}
		}
	}

	wall := time.Since(began).Seconds()
	if o.evidence != "" {
		faults := map[string]int{}
		for _, k := range meta.FaultKinds {
			faults[k] = total.Counters[k]
		}
		if len(samples) == 0 {
			samples = append(samples, map[string]any{"note": "no sample recorded"})
		}
		cov := map[string]any{
			"evaluations":          total.Evals,
			"distinct_nontrivial":  len(keys),
			"rule":                 meta.Rule,
			"samples":              samples,
			"exhaustive":           false,
			"simulated_runs":       len(plan),
			"runs_per_hour":        int(float64(len(plan)) / wall * 3600),
			"evaluations_per_hour": int(float64(total.Evals) / wall * 3600),
			"seeds":                fmt.Sprintf("VERIF_SEED=%d; one derived tape seed per case (%d cases)", o.seed, len(plan)),
			"simulated_time_ns":    total.SimNs,
			"faults_fired":         faults,
			"counters":             total.Counters,
			"known_findings_hit":   total.Known,
			"skipped":              total.Skipped,
			"real_components":      meta.RealCode,
			"stub_components":      meta.Stubs,
			"workers":              n,
			"repo_tree":            o.repoTree,
			"violation_classes":    violationNotes,
		}
		ev := map[string]any{
			"property_id": e.ID(),
			"tier":        o.tier,
			"seed":        o.seed,
			"level":       meta.Level,
			"coverage":    cov,
			"assumptions": meta.Assumptions,
			"wall_s":      wall,
			"violations":  reported,
		}
		b, _ := json.MarshalIndent(ev, "", " ")
		if err := os.WriteFile(o.evidence, append(b, '\n'), 0o644); err != nil {
			fmt.Fprintln(os.Stderr, err)
			infra = true
		}
	}
	fmt.Printf("[%s] evaluations=%d distinct=%d violations=%d known=%v wall=%.1fs\n", e.ID(), total.Evals, len(keys), reported, total.Known, wall)
	if exit == exitViolation {
		return exitViolation
	}
	if infra {
		return exitInfra
	}
	return exitOK
}

func firstLines(s string, n int) string {
	ls := strings.Split(s, "\n")
	if len(ls) > n {
		ls = ls[:n]
	}
	return strings.Join(ls, "\n")
}

func firstLine(s string) string {
	if i := strings.IndexByte(s, '\n'); i >= 0 {
		return s[:i]
	}
	return s
}

func runWithTimeout(cmd *exec.Cmd, d time.Duration) int {
	if err := cmd.Start(); err != nil {
		return exitInfra
	}
	done := make(chan error, 1)
	go func() { done <- cmd.Wait() }()
	select {
	case err := <-done:
		if err == nil {
			return 0
		}
		if ee, ok := err.(*exec.ExitError); ok {
			return ee.ExitCode()
		}
		return exitInfra
	case <-time.After(d):
		cmd.Process.Kill()
		return exitInfra
	}
}

func writeReplay(dir string, rf *ReplayFile, path string) string {
	if path == "" {
		if dir == "" {
			dir = os.TempDir()
		}
		os.MkdirAll(dir, 0o755)
		path = filepath.Join(dir, fmt.Sprintf("%s-%d-%d.json", rf.Property, rf.VerifSeed, rf.Case.Index))
	}
	b, _ := json.MarshalIndent(rf, "", " ")
	os.WriteFile(path, append(b, '\n'), 0o644)
	return path
}

func readReplay(path string) (*ReplayFile, error) {
	b, err := os.ReadFile(path)
	if err != nil {
		return nil, err
	}
	var rf ReplayFile
	if err := json.Unmarshal(b, &rf); err != nil {
		return nil, err
	}
	return &rf, nil
}

// doReplay re-executes exactly the recorded tape and reports whether the same class reproduces.
func doReplay(e Engine, x *Ctx, path string) int {
	rf, err := readReplay(path)
	if err != nil {
		fmt.Fprintln(os.Stderr, err)
		return exitInfra
	}
	x.Replay = true
	x.Tier = rf.Tier
	var t *Tape
	if rf.Tape == nil {
		t = NewTape(rf.Case.Seed)
	} else {
		t = ReplayTape(rf.Tape)
	}
	if rf.Violation != nil && rf.Violation.Class == "hang" {
		// a recorded hang reproduces iff the case again fails to finish within the CPU budget of the lone re-run
		budget := 8 * e.Meta().CaseTimeout // = 2 x 4 x the per-case budget, as in the original run
		if budget == 0 {
			budget = 8 * time.Minute
		}
		cpu0, t0 := processCPU(), time.Now()
		go func() {
			for {
				time.Sleep(time.Second)
				if processCPU()-cpu0 > budget || time.Since(t0) > 4*budget {
					fmt.Printf("VIOLATION property=%s replay=%s\n  class=hang\n  the case did not terminate within %v of CPU time\n", e.ID(), path, budget)
					os.Exit(exitViolation)
				}
			}
		}()
	}
	res, hp := runCase(e, t, rf.Case, x)
	if hp != "" {
		fmt.Fprintln(os.Stderr, "harness panic:", hp)
		return exitInfra
	}
	if res.Violation == nil {
		fmt.Printf("replay %s: no violation (property held on this tape)\n", path)
		return exitOK
	}
	fmt.Printf("VIOLATION property=%s replay=%s\n  class=%s\n  %s\n", e.ID(), path, res.Violation.Class, res.Violation.Message)
	for _, l := range x.Trace {
		fmt.Println("  | " + l)
	}
	return exitViolation
}

type evalOut struct {
	Class   string `json:"class"`
	Tape    []int  `json:"tape"`
	Message string `json:"message"`
}

// doEval runs the case of a replay file once and prints the outcome as JSON (used for
// fresh-process minimisation).
func doEval(e Engine, x *Ctx, path string) int {
	rf, err := readReplay(path)
	if err != nil {
		fmt.Fprintln(os.Stderr, err)
		return exitInfra
	}
	x.Tier = rf.Tier
	t := ReplayTape(rf.Tape)
	res, hp := runCase(e, t, rf.Case, x)
	if hp != "" {
		fmt.Fprintln(os.Stderr, hp)
		return exitInfra
	}
	out := evalOut{Tape: t.Out}
	if res.Violation != nil {
		out.Class, out.Message = res.Violation.Class, res.Violation.Message
	}
	b, _ := json.Marshal(out)
	fmt.Println("EVAL " + string(b))
	return exitOK
}

// doShrink minimises the tape of a replay file in place: delete blocks, zero, halve and
// decrement entries, keeping a candidate iff the same violation class reproduces.
func doShrink(e Engine, x *Ctx, path string) int {
	rf, err := readReplay(path)
	if err != nil {
		fmt.Fprintln(os.Stderr, err)
		return exitInfra
	}
	x.Tier = rf.Tier
	class := rf.Violation.Class
	runs := 0
	const budget = 400
	deadline := time.Now().Add(12 * time.Minute)
	fresh := e.Meta().FreshProcessShrink
	budgetRuns := budget
	if b := e.Meta().ShrinkBudget; b > 0 {
		budgetRuns = b
	}
	if fresh && budgetRuns > 60 {
		budgetRuns = 60
	}
	exe, _ := os.Executable()
	try := func(cand []int) ([]int, *Result, bool) {
		if runs >= budgetRuns || time.Now().After(deadline) {
			return nil, nil, false
		}
		runs++
		if fresh {
			tmp := path + ".cand"
			crf := *rf
			crf.Tape = cand
			writeReplay("", &crf, tmp)
			defer os.Remove(tmp)
			args := []string{"-property", e.ID(), "-tier", rf.Tier, "-eval", tmp}
			for i, a := range os.Args {
				if a == "-known" && i+1 < len(os.Args) {
					args = append(args, "-known", os.Args[i+1])
				}
			}
			outb, err := exec.Command(exe, args...).Output()
			if err != nil {
				return nil, nil, false
			}
			for _, l := range strings.Split(string(outb), "\n") {
				if strings.HasPrefix(l, "EVAL ") {
					var eo evalOut
					if json.Unmarshal([]byte(l[5:]), &eo) == nil && eo.Class == class {
						return eo.Tape, &Result{Violation: &Violation{Class: eo.Class, Message: eo.Message}}, true
					}
				}
			}
			return nil, nil, false
		}
		t := ReplayTape(cand)
		xx := &Ctx{Tier: x.Tier, Known: x.Known}
		res, hp := runCase(e, t, rf.Case, xx)
		if hp != "" || res == nil || res.Violation == nil || res.Violation.Class != class {
			return nil, nil, false
		}
		return append([]int(nil), t.Out...), res, true
	}
	best, res, ok := try(rf.Tape)
	if !ok {
		fmt.Fprintf(os.Stderr, "shrink: recorded tape does not reproduce class %s\n", class)
		return exitInfra
	}
	start := len(best)
	trim := func(b []int) []int {
		for len(b) > 0 && b[len(b)-1] == 0 {
			b = b[:len(b)-1]
		}
		return b
	}
	best = trim(best)
	improved := true
	for improved && runs < budgetRuns {
		improved = false
		// truncate tail
		for cut := len(best) / 2; cut >= 1; cut /= 2 {
			for len(best) > cut {
				if c, r, ok := try(best[:len(best)-cut]); ok && len(trim(c)) < len(best) {
					best, res, improved = trim(c), r, true
				} else {
					break
				}
			}
		}
		// delete blocks
		for size := 64; size >= 1; size /= 2 {
			for i := 0; i+size <= len(best); {
				cand := append(append([]int(nil), best[:i]...), best[i+size:]...)
				if c, r, ok := try(cand); ok && less(trim(c), best) {
					best, res, improved = trim(c), r, true
				} else {
					i++
				}
			}
		}
		// zero, halve, decrement single entries
		for i := 0; i < len(best); i++ {
			if best[i] == 0 {
				continue
			}
			for _, v := range []int{0, best[i] / 2, best[i] - 1} {
				if v >= best[i] {
					continue
				}
				cand := append([]int(nil), best...)
				cand[i] = v
				if c, r, ok := try(cand); ok && less(trim(c), best) {
					best, res, improved = trim(c), r, true
					break
				}
			}
		}
	}
	// final run with tracing on, to materialise the minimised case
	xx := &Ctx{Tier: x.Tier, Known: x.Known, Replay: true}
	t := ReplayTape(best)
	if fresh {
		// nothing: the confirming replay in a fresh process prints the trace
	} else if r, hp := runCase(e, t, rf.Case, xx); hp == "" && r != nil && r.Violation != nil && r.Violation.Class == class {
		res = r
		rf.Trace = xx.Trace
	}
	rf.Tape = best
	rf.Violation = res.Violation
	rf.Sample = res.Sample
	rf.ShrinkLog = fmt.Sprintf("tape %d -> %d cells in %d re-executions", start, len(best), runs)
	writeReplay("", rf, path)
	fmt.Fprintf(os.Stderr, "shrink: %s\n", rf.ShrinkLog)
	return exitOK
}

// less orders tapes: shorter first, then lexicographically smaller.
func less(a, b []int) bool {
	if len(a) != len(b) {
		return len(a) < len(b)
	}
	for i := range a {
		if a[i] != b[i] {
			return a[i] < b[i]
		}
	}
	return false
}

// processCPU is the CPU time (user + system) this process has consumed so far.
func processCPU() time.Duration {
	var ru syscall.Rusage
	if err := syscall.Getrusage(syscall.RUSAGE_SELF, &ru); err != nil {
		return 0
	}
	return time.Duration(ru.Utime.Nano() + ru.Stime.Nano())
}

// ProcessCPU is the CPU time (user + system) this process has consumed so far.
func ProcessCPU() time.Duration { return processCPU() }
