// Package simrt is the runtime of the deterministic simulator: the choice tape every
// decision is drawn from, the seeded generators, the simulated reader and the case runner.
package simrt

// SplitMix is the splitmix64 generator. It is the only source of randomness in the harness.
type SplitMix struct{ s uint64 }

func NewSplitMix(seed uint64) *SplitMix { return &SplitMix{s: seed} }

func (m *SplitMix) Next() uint64 {
	m.s += 0x9e3779b97f4a7c15
	z := m.s
	z = (z ^ (z >> 30)) * 0xbf58476d1ce4e5b9
	z = (z ^ (z >> 27)) * 0x94d049bb133111eb
	return z ^ (z >> 31)
}

// Mix derives a sub-seed from a seed and a list of integers (property number, case index, ...).
func Mix(seed uint64, parts ...uint64) uint64 {
	m := NewSplitMix(seed ^ 0x5851f42d4c957f2d)
	x := m.Next()
	for _, p := range parts {
		m.s ^= p*0x9e3779b97f4a7c15 + x
		x = m.Next()
	}
	return x
}

// HashString is FNV-1a 64; used for coverage keys.
func HashString(s string) uint64 {
	h := uint64(14695981039346656037)
	for i := 0; i < len(s); i++ {
		h ^= uint64(s[i])
		h *= 1099511628211
	}
	return h
}

// Tape is the recorded list of choices of one case. In generate mode every Draw is taken from
// the PRNG and appended; in replay mode Draws are served from the recorded list (clamped to the
// requested range), and zeros - the simplest choice - once the list is exhausted.
type Tape struct {
	rng    *SplitMix
	replay bool
	in     []int
	pos    int
	Out    []int
}

func NewTape(seed uint64) *Tape { return &Tape{rng: NewSplitMix(seed)} }

func ReplayTape(rec []int) *Tape { return &Tape{replay: true, in: rec} }

// Draw returns a value in [0,n). n <= 1 yields 0 and still occupies a tape cell, so that tapes
// keep their alignment when a range collapses.
func (t *Tape) Draw(n int) int {
	var v int
	if t.replay {
		if t.pos < len(t.in) {
			v = t.in[t.pos]
		}
		t.pos++
		if v < 0 {
			v = 0
		}
		if n <= 1 {
			v = 0
		} else if v >= n {
			v = n - 1
		}
	} else {
		if n > 1 {
			v = int(t.rng.Next() % uint64(n))
		}
	}
	t.Out = append(t.Out, v)
	return v
}

// Bool draws true with probability num/den.
func (t *Tape) Chance(num, den int) bool { return t.Draw(den) >= den-num }

// Range draws in [lo,hi].
func (t *Tape) Range(lo, hi int) int {
	if hi <= lo {
		t.Draw(1)
		return lo
	}
	return lo + t.Draw(hi-lo+1)
}

// Pick draws an index into a list of the given length.
func (t *Tape) Pick(n int) int { return t.Draw(n) }

// Len is the number of cells consumed so far.
func (t *Tape) Len() int { return len(t.Out) }
