package simrt

import (
	"errors"
	"fmt"
	"io"
	"io/fs"
	"syscall"
)

// ErrSimIO is the injected read error (an EIO-like failure of the simulated disk).
var ErrSimIO = errors.New("simulated I/O error (EIO)")

// ReadErrors are the error values a failing Read may return (ReadPlan.ErrKind indexes them): the
// simulator's own EIO, and errors real readers use to report a failure - a decompressor or an
// HTTP body cut short (io.ErrUnexpectedEOF), a pipe closed under the reader (io.ErrClosedPipe), a
// failing disk as *os.File reports it (*fs.PathError wrapping EIO). None of them is io.EOF.
var ReadErrors = []error{
	ErrSimIO,
	io.ErrUnexpectedEOF,
	io.ErrClosedPipe,
	&fs.PathError{Op: "read", Path: "spec.grammar", Err: syscall.EIO},
}

// IsInjected reports whether err carries (the text of) one of the injected read errors.
func IsInjected(err error) bool {
	if err == nil {
		return false
	}
	for _, e := range ReadErrors {
		if errors.Is(err, e) || containsText(err.Error(), e.Error()) {
			return true
		}
	}
	return false
}

func containsText(s, sub string) bool {
	for i := 0; i+len(sub) <= len(s); i++ {
		if s[i:i+len(sub)] == sub {
			return true
		}
	}
	return false
}

// ReadPlan decides every Read of a SimReader. The zero value is the "full" behaviour of a
// regular file: fill p completely until the data runs out, return the final partial chunk with
// a nil error and then (0, io.EOF).
type ReadPlan struct {
	// Short: return fewer bytes than asked although more are available (pipe/tty behaviour).
	// Chunk sizes are drawn from a splitmix stream seeded with ChunkSeed, in [1,MaxChunk].
	Short     bool   `json:"short,omitempty"`
	ChunkSeed uint64 `json:"chunk_seed,omitempty"`
	MaxChunk  int    `json:"max_chunk,omitempty"`
	// ZeroCalls: indices of Read calls that return (0,nil) before doing anything.
	ZeroCalls []int `json:"zero_calls,omitempty"`
	// DataEOF: the last chunk is returned together with io.EOF.
	DataEOF bool `json:"data_eof,omitempty"`
	// ErrCall >= 0: that Read call fails with ErrSimIO. With ErrWithData it first copies up to
	// ErrData bytes and returns (n>0, err).
	ErrCall     int  `json:"err_call"`
	ErrWithData bool `json:"err_with_data,omitempty"`
	ErrData     int  `json:"err_data,omitempty"`
	// ErrKind selects the error value from ReadErrors (0: ErrSimIO).
	ErrKind int `json:"err_kind,omitempty"`
}

// Err is the error value a failing Read of this plan returns.
func (p ReadPlan) Err() error { return ReadErrors[p.ErrKind%len(ReadErrors)] }

func FullPlan() ReadPlan { return ReadPlan{ErrCall: -1} }

func (p ReadPlan) Kind() string {
	k := "full"
	if p.Short {
		k = "short"
	}
	if len(p.ZeroCalls) > 0 {
		k += "+zero"
	}
	if p.DataEOF {
		k += "+data_eof"
	}
	if p.ErrCall >= 0 {
		if p.ErrWithData {
			k += "+err_with_data"
		} else {
			k += "+err"
		}
	}
	return k
}

func (p ReadPlan) String() string {
	e := ""
	if p.ErrCall >= 0 {
		e = fmt.Sprintf(" err=%q", p.Err().Error())
	}
	return fmt.Sprintf("%s{errCall=%d%s zero=%v maxChunk=%d}", p.Kind(), p.ErrCall, e, p.ZeroCalls, p.MaxChunk)
}

// SimReader is the simulated disk, read side.
type SimReader struct {
	data []byte
	off  int
	plan ReadPlan
	rng  *SplitMix

	Calls          int  // Read calls so far
	ZeroReturned   int  // (0,nil) results delivered
	ShortReturned  int  // reads that returned fewer bytes than asked while more was available
	ErrDelivered   bool // the injected error reached the caller
	EOFDelivered   bool // io.EOF reached the caller
	CallsAfterTerm int  // Read calls issued after an error or io.EOF was delivered
	Delivered      int  // bytes handed out
}

func NewSimReader(data []byte, plan ReadPlan) *SimReader {
	r := &SimReader{data: data, plan: plan}
	if plan.Short {
		r.rng = NewSplitMix(plan.ChunkSeed)
	}
	return r
}

func (r *SimReader) Read(p []byte) (int, error) {
	call := r.Calls
	r.Calls++
	if r.ErrDelivered || r.EOFDelivered {
		r.CallsAfterTerm++
	}
	if r.ErrDelivered {
		return 0, r.plan.Err()
	}
	if call == r.plan.ErrCall {
		n := 0
		if r.plan.ErrWithData {
			n = r.plan.ErrData
			if n > len(p) {
				n = len(p)
			}
			if n > len(r.data)-r.off {
				n = len(r.data) - r.off
			}
			copy(p, r.data[r.off:r.off+n])
			r.off += n
			r.Delivered += n
		}
		r.ErrDelivered = true
		return n, r.plan.Err()
	}
	for _, z := range r.plan.ZeroCalls {
		if z == call {
			r.ZeroReturned++
			return 0, nil
		}
	}
	if len(p) == 0 {
		return 0, nil
	}
	rest := len(r.data) - r.off
	if rest == 0 {
		r.EOFDelivered = true
		return 0, io.EOF
	}
	n := len(p)
	if n > rest {
		n = rest
	}
	if r.plan.Short && n > 1 {
		max := r.plan.MaxChunk
		if max < 1 {
			max = 1
		}
		k := 1 + int(r.rng.Next()%uint64(max))
		if k < n {
			n = k
			r.ShortReturned++
		}
	}
	copy(p, r.data[r.off:r.off+n])
	r.off += n
	r.Delivered += n
	if r.plan.DataEOF && r.off == len(r.data) {
		r.EOFDelivered = true
		return n, io.EOF
	}
	return n, nil
}
