package simrt

import "strings"

// PanicSite names the function that panicked: the first frame below the runtime's panic
// machinery in a debug.Stack() dump (seenPanic=false) or the first non-runtime frame of the crash
// dump of a dying process (seenPanic=true).
func PanicSite(stack string, seenPanic bool) string {
	lines := strings.Split(stack, "\n")
	for _, l := range lines {
		if strings.HasPrefix(l, "\t") || strings.HasPrefix(l, "goroutine ") || l == "" {
			continue
		}
		fn := l
		if i := strings.LastIndex(fn, "("); i > 0 {
			fn = fn[:i]
		}
		if strings.HasPrefix(fn, "panic") {
			seenPanic = true
			continue
		}
		if !seenPanic || strings.HasPrefix(fn, "runtime.") || strings.HasPrefix(fn, "runtime/") {
			continue
		}
		return fn
	}
	return "unknown"
}
