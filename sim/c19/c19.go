// Package c19 decides property C19: compiled and run, the emitted lexer tokenises any UTF-8 input
// exactly as the specification's token automaton prescribes, independent of input length, buffer
// boundaries and a final newline. The emitted package is real compiled code (built by the Go
// toolchain in a scratch module); its reader argument is the simulated disk.
package c19

import (
	"bytes"
	"encoding/base64"
	"encoding/json"
	"fmt"
	"os"
	"os/exec"
	"path/filepath"
	"regexp"
	"sort"
	"strings"
	"time"
	"unicode/utf8"

	"github.com/gardenbed/charm/ui"
	auto "github.com/moorara/algo/automata"

	"github.com/gardenbed/emerge/internal/ebnf/parser/spec"
	"github.com/gardenbed/emerge/internal/generate/golang"
	"github.com/gardenbed/emerge/zz_verif/simrt"
	simctl "github.com/moorara/algo/zz_simctl"
)

type Engine struct {
	GoCmd string // go command to build the emitted packages with
}

func (Engine) ID() string { return "C19" }

func (Engine) Meta() simrt.Meta {
	return simrt.Meta{
		Level: "exploration",
		Rule: "a case = one batch of generated accepted specifications, each emitted by the real generator, compiled together with a driver by the Go toolchain and fed input texts (random walks through the token automaton to accepting states, near-misses, unmatched blanks, multi-byte characters, with/without final newline) through a simulated reader, with padding solved so that the first / last / look-ahead byte of a probe lexeme and every byte of a multi-byte character land on k*B+d of the emitted reader's buffer; an evaluation = one token stream compared with the reference maximal-run tokenizer R-munch computed from Spec.DFA(); " +
			"distinct_nontrivial counts distinct (specification, alignment role, boundary k, phase d, probe terminal) tuples and distinct (specification, input shape) pairs; an input is non-trivial iff it yields at least two tokens or ends in a lexical error by construction",
		Assumptions: []string{
			"Go toolchain (compiles the emitted packages); Spec.DFA() (automaton + terminal->states) is taken as given, as the property does; R-munch is a 40-line reference: follow transitions until none exists, judge the state reached, skip WS/EOL/COMMENT, discard unmatched blank characters",
			"the emitted Position.Offset is accepted in either of its two consistent readings (bytes or characters) for a whole run; error text and error position are not compared",
			"inputs are valid UTF-8 without NUL (the reader's documented sentinel); token lexemes stay far below the buffer size",
		},
		RealCode:     []string{"internal/generate/golang (Generate, templates)", "emitted package compiled by the Go toolchain: lexer.go, input.go, stack.go, types.go, errors.go", "Spec.DFA / spec.Parse (to obtain the automaton)"},
		Stubs:        []string{"io.Reader of the emitted lexer (simulated reader in the driver: regular-file semantics, or a benign delivery schedule - short chunks, zero-length reads, last chunk together with io.EOF; end of input placed by the harness)"},
		FaultKinds:   []string{"eof_right_after_token", "eof_inside_token", "boundary_alignments", "multibyte_straddles_boundary", "unmatched_blank", "delivery_short_reads", "delivery_zero_length_reads", "delivery_data_with_eof"},
		CaseTimeout:  900 * time.Second,
		ShrinkBudget: 12,
	}
}

func (e Engine) Plan(tier string, seed uint64) []simrt.Case {
	n := 4
	if tier == "thorough" {
		n = 48
	}
	var cs []simrt.Case
	for i := 0; i < n; i++ {
		cs = append(cs, simrt.Case{Index: i, Seed: simrt.Mix(seed, 19, uint64(i))})
	}
	return cs
}

// ---- specification generator (terminal sets) ---------------------------------------------------

type termDef struct {
	name  string // token name or "" for a literal used directly in the rules
	value string // source text of the definition: "lit", /re/ or $PREDEF
}

var termPool = [][]termDef{
	// each inner list is a group of mutually exclusive alternatives for one "slot"
	{{"ID", `/[a-z][a-z0-9]*/`}, {"ID", `/[a-z]+/`}, {"WORD", `$ID`}},
	{{"NUM", `/[0-9]+/`}, {"NUM", `$NUMBER`}, {"INT", `/0|[1-9][0-9]*/`}},
	{{"", `"if"`}, {"", `"while"`}, {"KW", `"let"`}},
	{{"", `"+"`}, {"", `"=="`}, {"", `"="`}, {"OP", `"->"`}},
	{{"", `"("`}, {"", `";"`}, {"", `"{"`}},
	{{"UNI", `/\x00E9+/`}, {"EURO", `/\x20AC/`}, {"CACTUS", `/\x1F335+/`}, {"MIX", `/\x00E9\x20AC?/`}},
	{{"STR", `$STRING`}, {"STR", `/'[a-z ]*'/`}, {"STR", `/"[^"]*"/`}, {"STR", `/'.*'/`}},
	{{"WS", `$WS`}, {"WS", `/[ \t]+/`}, {"", ""}, {"", ""}},
	{{"EOL", `/[\x0A\x0D]+/`}, {"", ""}, {"", ""}},
	{{"COMMENT", `/#[\x20-\x7E]*/`}, {"COMMENT", `/%[^%]*%/`}, {"", ""}, {"", ""}},
	{{"QUOTE", `"'"`}, {"BSL", `"\\"`}, {"", ""}, {"", ""}},
	// blank characters that ARE tokens of the language (not named WS/EOL/COMMENT), next to blanks no token matches
	{{"NL", `/\x0A/`}, {"NL", `/\x0D?\x0A/`}, {"TAB", `/\x09+/`}, {"", ""}, {"", ""}, {"", ""}},
}

func genSpecText(t *simrt.Tape, pkg string) string {
	var b strings.Builder
	fmt.Fprintf(&b, "grammar %s;\n", pkg)
	var items []string
	used := 0
	for gi, group := range termPool {
		if gi >= 5 && gi != 7 && t.Chance(1, 2) && used >= 2 {
			continue
		}
		d := group[t.Draw(len(group))]
		if d.value == "" {
			continue
		}
		if gi == 6 && strings.Contains(b.String(), "QUOTE") {
			continue
		}
		if gi == 10 && d.name == "QUOTE" && strings.Contains(b.String(), "STR = /'") {
			continue
		}
		used++
		if d.name != "" {
			fmt.Fprintf(&b, "%s = %s;\n", d.name, d.value)
			if d.name != "WS" && d.name != "EOL" && d.name != "COMMENT" {
				items = append(items, d.name)
			}
		} else {
			items = append(items, d.value)
		}
	}
	if len(items) == 0 {
		items = append(items, `"x"`)
	}
	fmt.Fprintf(&b, "start = { item };\nitem = %s;\n", strings.Join(items, " | "))
	return b.String()
}

// ---- reference tokenizer R-munch ---------------------------------------------------------------

type refTok struct {
	T                string
	L                string
	ByteOff, RuneOff int
	Line, Col        int
}

type automaton struct {
	start auto.State
	trans map[auto.State]map[rune]auto.State
	owner map[auto.State]string
	syms  map[auto.State][]rune
}

func newAutomaton(d *auto.DFA, tm map[string][]int) *automaton {
	a := &automaton{start: d.Start, trans: map[auto.State]map[rune]auto.State{}, owner: map[auto.State]string{}, syms: map[auto.State][]rune{}}
	for tr := range d.Transitions() {
		if a.trans[tr.State] == nil {
			a.trans[tr.State] = map[rune]auto.State{}
		}
		a.trans[tr.State][rune(tr.Symbol)] = tr.Next
	}
	for s, m := range a.trans {
		for r := range m {
			a.syms[s] = append(a.syms[s], r)
		}
		sort.Slice(a.syms[s], func(i, j int) bool { return a.syms[s][i] < a.syms[s][j] })
	}
	for term, states := range tm {
		for _, s := range states {
			a.owner[auto.State(s)] = term
		}
	}
	return a
}

// munch is the reference: from each token start follow the longest run the automaton allows,
// then judge the state reached.
func (a *automaton) munch(in []byte) (toks []refTok, lexErr bool) {
	i, runeOff, line, col := 0, 0, 1, 1
	for i < len(in) {
		state := a.start
		j, n := i, 0
		for j < len(in) {
			r, sz := utf8.DecodeRune(in[j:])
			next, ok := a.trans[state][r]
			if !ok {
				break
			}
			state = next
			j += sz
			n++
		}
		if n == 0 {
			r, sz := utf8.DecodeRune(in[i:])
			if r == ' ' || r == '\t' || r == '\n' || r == '\r' {
				// unmatched blank: discarded, as documented
				if r == '\n' {
					line, col = line+1, 1
				} else {
					col++
				}
				i += sz
				runeOff++
				continue
			}
			return toks, true
		}
		term, ok := a.owner[state]
		if !ok {
			return toks, true
		}
		lex := string(in[i:j])
		if term != "WS" && term != "EOL" && term != "COMMENT" {
			toks = append(toks, refTok{T: term, L: lex, ByteOff: i, RuneOff: runeOff, Line: line, Col: col})
		}
		for _, r := range lex {
			if r == '\n' {
				line, col = line+1, 1
			} else {
				col++
			}
			runeOff++
		}
		i = j
	}
	return toks, false
}

// wideStates returns, for up to n states with at least 100 outgoing symbols, a shortest input of
// printable characters that leads from the start state into that state.
func (a *automaton) wideStates(n int) []string {
	type item struct {
		s    auto.State
		path string
	}
	seen := map[auto.State]bool{a.start: true}
	queue := []item{{a.start, ""}}
	var out []string
	for len(queue) > 0 && len(out) < n {
		it := queue[0]
		queue = queue[1:]
		if len(a.syms[it.s]) >= 100 && it.path != "" {
			out = append(out, it.path)
		}
		for _, r := range a.syms[it.s] {
			if r < 0x20 || r == 0x7f {
				continue
			}
			nx := a.trans[it.s][r]
			if !seen[nx] {
				seen[nx] = true
				queue = append(queue, item{nx, it.path + string(r)})
			}
		}
	}
	return out
}

// walk produces a lexeme by a random walk from the start state to an accepting state
// (or, for a near-miss, stops in a non-accepting state).
func (a *automaton) walk(t *simrt.Tape, nearMiss bool) string {
	var b strings.Builder
	state := a.start
	for steps := 0; steps < 12; steps++ {
		syms := a.syms[state]
		if len(syms) == 0 {
			break
		}
		if _, acc := a.owner[state]; acc && steps > 0 && !nearMiss && t.Chance(1, 3) {
			break
		}
		// prefer printable symbols; take a tape-chosen one
		r := syms[t.Draw(len(syms))]
		if r < 0x20 && r != '\t' && r != '\n' {
			r = syms[len(syms)/2]
		}
		if r == 0 {
			break
		}
		b.WriteRune(r)
		state = a.trans[state][r]
		if nearMiss && steps >= 1 && t.Chance(1, 2) {
			break
		}
	}
	if _, acc := a.owner[state]; !acc && !nearMiss {
		// push on to an accepting state if one is close
		for steps := 0; steps < 8; steps++ {
			if _, acc := a.owner[state]; acc {
				break
			}
			syms := a.syms[state]
			if len(syms) == 0 {
				break
			}
			r := syms[t.Draw(len(syms))]
			if r == 0 {
				break
			}
			b.WriteRune(r)
			state = a.trans[state][r]
		}
	}
	return b.String()
}

// ---- batch: emit, compile, run -----------------------------------------------------------------

type job struct {
	Pkg   string    `json:"pkg"`
	Input string    `json:"input"` // base64
	D     *delivery `json:"d,omitempty"`
}

// delivery is a benign delivery schedule of the simulated reader: the same bytes, handed out in
// short chunks, with (0,nil) reads in between, the last chunk together with io.EOF - everything the
// io.Reader contract allows a pipe, a socket or a decompressor to do. nil is a regular file.
type delivery struct {
	Seed     uint64 `json:"s"`
	MaxChunk int    `json:"m"`           // > 0: every read returns 1..m bytes
	Zero     []int  `json:"z,omitempty"` // indices of Read calls that return (0, nil)
	DataEOF  bool   `json:"e,omitempty"` // the last chunk comes together with io.EOF
}

func (d *delivery) String() string {
	if d == nil {
		return "regular file"
	}
	return fmt.Sprintf("chunks of 1..%d bytes (seed %d), zero-length reads at calls %v, last chunk with io.EOF=%v", d.MaxChunk, d.Seed, d.Zero, d.DataEOF)
}

func drawDelivery(t *simrt.Tape, B int) *delivery {
	d := &delivery{Seed: uint64(t.Draw(1 << 30))}
	switch t.Draw(4) {
	case 0:
		d.MaxChunk = []int{1, 2, 3, 7}[t.Draw(4)]
	case 1:
		d.MaxChunk = []int{64, 100, 1000, B / 2}[t.Draw(4)]
	case 2:
		d.MaxChunk = []int{B - 1, B, B + 1, 3 * B}[t.Draw(4)]
	}
	for n := t.Draw(4); n > 0; n-- {
		d.Zero = append(d.Zero, t.Draw(12))
	}
	d.DataEOF = t.Chance(1, 2)
	if d.MaxChunk == 0 && len(d.Zero) == 0 && !d.DataEOF {
		d.MaxChunk = 5
	}
	return d
}

type drvTok struct {
	T  string `json:"t"`
	L  string `json:"l"`
	O  int    `json:"o"`
	Ln int    `json:"ln"`
	C  int    `json:"c"`
}

type drvOut struct {
	Toks  []drvTok `json:"toks"`
	End   string   `json:"end"` // EOF | ERR:<text> | PANIC:<text> | LOOP
	Reads int      `json:"reads"`
}

const driverHead = `package main

import (
	"bufio"
	"encoding/base64"
	"encoding/json"
	"errors"
	"fmt"
	"io"
	"os"
%s
)

type tok struct {
	T  string ` + "`json:\"t\"`" + `
	L  string ` + "`json:\"l\"`" + `
	O  int    ` + "`json:\"o\"`" + `
	Ln int    ` + "`json:\"ln\"`" + `
	C  int    ` + "`json:\"c\"`" + `
}

type out struct {
	Toks  []tok  ` + "`json:\"toks\"`" + `
	End   string ` + "`json:\"end\"`" + `
	Reads int    ` + "`json:\"reads\"`" + `
}

// blockReader is the simulated disk. Without a delivery schedule it is a regular file - every Read
// fills p until the data runs out, then (0, io.EOF). With one it hands out the same bytes the way a
// pipe or a socket may: short chunks, zero-length reads, the last chunk together with io.EOF.
type delivery struct {
	Seed     uint64 ` + "`json:\"s\"`" + `
	MaxChunk int    ` + "`json:\"m\"`" + `
	Zero     []int  ` + "`json:\"z\"`" + `
	DataEOF  bool   ` + "`json:\"e\"`" + `
}

type blockReader struct {
	data  []byte
	off   int
	reads int
	d     *delivery
	rng   uint64
}

func (r *blockReader) next() uint64 {
	r.rng += 0x9e3779b97f4a7c15
	z := r.rng
	z = (z ^ (z >> 30)) * 0xbf58476d1ce4e5b9
	z = (z ^ (z >> 27)) * 0x94d049bb133111eb
	return z ^ (z >> 31)
}

func (r *blockReader) Read(p []byte) (int, error) {
	call := r.reads
	r.reads++
	if r.d != nil {
		for _, z := range r.d.Zero {
			if z == call {
				return 0, nil
			}
		}
	}
	if len(p) == 0 {
		return 0, nil
	}
	if r.off >= len(r.data) {
		return 0, io.EOF
	}
	n := len(p)
	if rest := len(r.data) - r.off; n > rest {
		n = rest
	}
	if r.d != nil && r.d.MaxChunk > 0 && n > 1 {
		if k := 1 + int(r.next()%%uint64(r.d.MaxChunk)); k < n {
			n = k
		}
	}
	copy(p, r.data[r.off:r.off+n])
	r.off += n
	if r.d != nil && r.d.DataEOF && r.off == len(r.data) {
		return n, io.EOF
	}
	return n, nil
}

var runners = map[string]func(r *blockReader) out{}

func main() {
	sc := bufio.NewScanner(os.Stdin)
	sc.Buffer(make([]byte, 1<<20), 1<<28)
	w := bufio.NewWriter(os.Stdout)
	defer w.Flush()
	for sc.Scan() {
		var j struct {
			Pkg   string ` + "`json:\"pkg\"`" + `
			Input string ` + "`json:\"input\"`" + `
			D     *delivery ` + "`json:\"d\"`" + `
		}
		if err := json.Unmarshal(sc.Bytes(), &j); err != nil {
			fmt.Fprintln(os.Stderr, err)
			os.Exit(2)
		}
		data, _ := base64.StdEncoding.DecodeString(j.Input)
		rd := &blockReader{data: data, d: j.D}
		if j.D != nil {
			rd.rng = j.D.Seed
		}
		var o out
		func() {
			defer func() {
				if r := recover(); r != nil {
					o.End = fmt.Sprintf("PANIC:%%v", r)
				}
			}()
			o = runners[j.Pkg](rd)
		}()
		o.Reads = rd.reads
		b, _ := json.Marshal(o)
		w.Write(b)
		w.WriteByte('\n')
		w.Flush()
	}
}

var _ = errors.Is
`

const driverPkg = `
func init() {
	runners[%q] = func(r *blockReader) (o out) {
		l, err := %s.New("in", r)
		if err != nil {
			if errors.Is(err, io.EOF) {
				o.End = "EOF"
			} else {
				o.End = "ERR:" + err.Error()
			}
			return
		}
		for n := 0; ; n++ {
			if n > 200000 {
				o.End = "LOOP"
				return
			}
			t, err := l.NextToken()
			if err != nil {
				if errors.Is(err, io.EOF) {
					o.End = "EOF"
				} else {
					o.End = "ERR:" + err.Error()
				}
				return
			}
			o.Toks = append(o.Toks, tok{T: string(t.Terminal), L: t.Lexeme, O: t.Pos.Offset, Ln: t.Pos.Line, C: t.Pos.Column})
		}
	}
}
`

var bufSizeRE = regexp.MustCompile(`bufferSize\s*=\s*(\d+)`)

type emitted struct {
	pkg  string
	text string
	a    *automaton
	B    int
}

func (e Engine) Run(t *simrt.Tape, c simrt.Case, x *simrt.Ctx) *simrt.Result {
	res := simrt.NewResult()
	simctl.Begin(simctl.Sorted, c.Seed) // the dependency's clock-seeded PRNGs follow the case seed: exact replay
	t0 := time.Now()
	lap := func(what string) {
		if os.Getenv("VERIF_DEBUG") != "" {
			fmt.Fprintf(os.Stderr, "C19 case %d: %s at %.1fs\n", c.Index, what, time.Since(t0).Seconds())
		}
	}
	dir, err := os.MkdirTemp("", "c19-")
	if err != nil {
		panic(err)
	}
	defer os.RemoveAll(dir)
	nSpecs := 8
	if x.Tier == "thorough" {
		nSpecs = 16
	}
	if x.Replay {
		// keep the batch but it is cheap enough to rebuild
	}
	os.WriteFile(filepath.Join(dir, "go.mod"), []byte("module emitdrv\n\ngo 1.23\n"), 0o644)

	var ems []*emitted
	for i := 0; i < nSpecs; i++ {
		pkg := fmt.Sprintf("p%d", i)
		text := genSpecText(t, pkg)
		sp, err := spec.Parse(pkg+".grammar", strings.NewReader(text))
		if err != nil {
			panic(fmt.Sprintf("generated specification rejected by spec.Parse (generator bug): %v\n%s", err, text))
		}
		d, tm, err := sp.DFA()
		if err != nil {
			// overlapping definitions drawn together: not an accepted specification, skip
			res.Skipped++
			continue
		}
		if _, err := sp.LALRParsingTable(); err != nil {
			res.Skipped++
			continue
		}
		if err := golang.Generate(ui.NewNop(), &golang.Params{Path: dir, Spec: sp}); err != nil {
			return res.Fail("generate_failed", "golang.Generate failed on an accepted specification: %v\n%s", err, text)
		}
		tms := map[string][]int{}
		for term, ss := range tm {
			for _, s := range ss {
				tms[string(term)] = append(tms[string(term)], int(s))
			}
		}
		em := &emitted{pkg: pkg, text: text, a: newAutomaton(d, tms), B: 4096}
		if b, err := os.ReadFile(filepath.Join(dir, pkg, "lexer.go")); err == nil {
			if m := bufSizeRE.FindSubmatch(b); m != nil {
				fmt.Sscan(string(m[1]), &em.B)
			}
		}
		ems = append(ems, em)
	}
	if len(ems) == 0 {
		res.Skipped++
		return res
	}

	lap("emitted")
	// driver
	var imports, regs strings.Builder
	for _, em := range ems {
		fmt.Fprintf(&imports, "\t%s \"emitdrv/%s\"\n", em.pkg, em.pkg)
		fmt.Fprintf(&regs, driverPkg, em.pkg, em.pkg)
	}
	os.WriteFile(filepath.Join(dir, "main.go"), []byte(fmt.Sprintf(driverHead, imports.String())+regs.String()), 0o644)
	build := exec.Command(e.GoCmd, "build", "-o", "driver", ".")
	build.Dir = dir
	build.Env = append(os.Environ(), "GOFLAGS=-mod=mod", "GOWORK=off")
	if outb, err := build.CombinedOutput(); err != nil {
		// find the offending packages one by one
		var bad []string
		firstErr := firstLines(string(outb), 6)
		for _, em := range ems {
			vb := exec.Command(e.GoCmd, "build", "./"+em.pkg)
			vb.Dir = dir
			vb.Env = build.Env
			if o2, err := vb.CombinedOutput(); err != nil {
				bad = append(bad, em.pkg)
				if len(bad) == 1 {
					firstErr = firstLines(string(o2), 6)
					x.Tracef("specification of %s:\n%s", em.pkg, em.text)
					if b, err := os.ReadFile(filepath.Join(dir, em.pkg, "lexer.go")); err == nil {
						x.Tracef("emitted lexer.go excerpt:\n%s", excerptAround(string(b), "func (l *Lexer) evalDFA", 900))
					}
				}
			}
		}
		if len(bad) == 0 {
			// every emitted package compiles on its own: the driver does not fit the emitted API
			// (harness trouble, exit 2), not a property violation
			panic("the driver does not compile against the emitted packages (emitted API changed?):\n" + firstErr)
		}
		res.Evals += len(ems)
		res.Violation = &simrt.Violation{Class: "emitted_package_does_not_compile", Message: fmt.Sprintf("%d of %d emitted packages do not compile (%v); first error:\n%s", len(bad), len(ems), bad, firstErr),
			Detail: map[string]any{"first_specification": ems[0].text}}
		return res
	}

	lap("built")
	// jobs
	type expect struct {
		em    *emitted
		input []byte
		note  string
		key   string
		d     *delivery
	}
	var jobs []expect
	// every fourth input is tokenised a second time under a benign delivery schedule of the reader
	// (same bytes, other chunking): the token stream is a function of the text, not of how read(2)
	// happens to slice it
	add := func(em *emitted, in []byte, note, key string) {
		if !utf8.Valid(in) || bytes.IndexByte(in, 0) >= 0 {
			return
		}
		jobs = append(jobs, expect{em, in, note, key, nil})
		if t.Chance(1, 4) {
			d := drawDelivery(t, em.B)
			jobs = append(jobs, expect{em, in, note + "; delivered in " + d.String(), key + "+delivery", d})
			res.Count("delivery_schedules", 1)
			if d.MaxChunk > 0 {
				res.Count("delivery_short_reads", 1)
			}
			if len(d.Zero) > 0 {
				res.Count("delivery_zero_length_reads", 1)
			}
			if d.DataEOF {
				res.Count("delivery_data_with_eof", 1)
			}
		}
	}
	nInputs := 10
	if x.Tier == "thorough" {
		nInputs = 30
	}
	for _, em := range ems {
		seps := []string{" ", "\n", "  ", "\t", " \n", "\r\n", "", " ", "\n", "\t",
			// characters that are white space for Unicode but not in the documented discard set
			// (space, tab, LF, CR): between tokens they are lexical errors unless a token matches them
			"\f", "\v", "\u0085", "\u00a0", "\u2028", "\u3000", " \f ", "\u2003"}
		for k := 0; k < nInputs; k++ {
			var b bytes.Buffer
			n := 1 + t.Draw(8)
			shape := "tokens"
			for i := 0; i < n; i++ {
				near := t.Chance(1, 12)
				if near {
					shape = "near_miss"
				}
				b.WriteString(em.a.walk(t, near))
				b.WriteString(seps[t.Draw(len(seps))])
			}
			switch t.Draw(4) {
			case 0:
				b.WriteString("\n")
			case 1: // no final newline, last token flush against the end
				bb := bytes.TrimRight(b.Bytes(), " \t\r\n")
				b.Reset()
				b.Write(bb)
				shape += "+eof_after_token"
			case 2:
				b.WriteString("   ")
			}
			add(em, append([]byte(nil), b.Bytes()...), "random input", "shape:"+shape)
			// the same input with a character from outside the automaton's alphabet dropped in at a
			// tape-chosen position (inside a lexeme as often as between two)
			if raw := b.Bytes(); len(raw) > 0 && t.Chance(1, 2) {
				at := t.Draw(len(raw) + 1)
				for at < len(raw) && !utf8.RuneStart(raw[at]) {
					at++
				}
				ins := []string{"é", "日", "😀", "ß", "\u00a0", "Ω", "~", "`", "\x7f", "\x01"}[t.Draw(10)]
				mut := append(append(append([]byte(nil), raw[:at]...), ins...), raw[at:]...)
				add(em, mut, fmt.Sprintf("random input with %q inserted at byte %d", ins, at), "shape:"+shape+"+foreign_char")
			}
		}
		// wide states: a state with transitions on (nearly) the whole ASCII table - the inside of a
		// quoted string, a comment body, "." - is where code generation is tempted to use a catch-all.
		// Reach each such state by a shortest printable path and feed it a character from outside the
		// automaton's alphabet.
		for _, ws := range em.a.wideStates(3) {
			for _, foreign := range []string{"é", "日", "😀", "\u00a0"} {
				for _, cont := range []string{"", "a", " ", "\"", "'", "%", "\n"} {
					in := ws + foreign + cont
					add(em, []byte(in), fmt.Sprintf("wide state reached by %q, then %q", ws, foreign+cont), "wide:"+em.pkg+":"+foreign)
				}
			}
		}
		// one long lexeme: more characters than one block of the emitted reader's chunked stack and
		// than one buffer half, still within what the two halves can hold
		for tries := 0; tries < 30; tries++ {
			w := em.a.walk(t, false)
			if len(w) == 0 || len(w) > 3 {
				continue
			}
			ch := w[len(w)-1:]
			if ch[0] >= 0x80 {
				continue
			}
			// does the automaton loop on that character? then w+ch*k is one lexeme
			long := w + strings.Repeat(ch, 40)
			if toks, bad := em.a.munch([]byte(long)); bad || len(toks) != 1 || toks[0].L != long {
				continue
			}
			for _, n := range []int{em.B - 1, em.B, em.B + 1, em.B + em.B/2} {
				for _, lead := range []string{"", " ", strings.Repeat(" ", 100)} {
					in := lead + w + strings.Repeat(ch, n-len(w)) + " " + w + "\n"
					add(em, []byte(in), fmt.Sprintf("long lexeme of %d characters after %d blanks", n, len(lead)), fmt.Sprintf("long:%s:%d:%d", em.pkg, n, len(lead)))
				}
			}
			break
		}
		// boundary alignments: a unit of (lexeme + separator) is repeated to fill, a probe lexeme is
		// placed so that its first / last / look-ahead byte lands on k*B+d
		unit := ""
		for tries := 0; tries < 20 && unit == ""; tries++ {
			w := em.a.walk(t, false)
			if toks, bad := em.a.munch([]byte(w + " ")); !bad && len(toks) == 1 && len(w) <= 12 {
				unit = w + " "
			}
		}
		if unit == "" {
			continue
		}
		var probes []string
		for tries := 0; tries < 40 && len(probes) < 4; tries++ {
			w := em.a.walk(t, false)
			if toks, bad := em.a.munch([]byte(w)); !bad && len(toks) == 1 && toks[0].L == w {
				probes = append(probes, w)
			}
		}
		// make sure a multi-byte probe is present when the specification has one
		for _, cand := range []string{"é", "€", "🌵", "é€", "éé"} {
			if toks, bad := em.a.munch([]byte(cand)); !bad && len(toks) == 1 && toks[0].L == cand {
				probes = append(probes, cand)
				break
			}
		}
		ks := []int{1, 2}
		if x.Tier == "thorough" {
			ks = []int{1, 2, 3}
		}
		for _, probe := range probes {
			for _, k := range ks {
				for role := 0; role < 3+len(probe); role++ {
					at := 0 // offset inside (probe) of the byte to align; role 0 first, 1 last, 2 look-ahead, 3.. every byte
					switch role {
					case 0:
						at = 0
					case 1:
						at = len(probe) - 1
					case 2:
						at = len(probe)
					default:
						at = role - 3
					}
					for d := -2; d <= 2; d++ {
						target := k*em.B + d - at // start offset of the probe
						if target < len(unit) {
							continue
						}
						nUnits := target / len(unit)
						fill := target - nUnits*len(unit)
						var b bytes.Buffer
						b.WriteString(strings.Repeat(" ", fill))
						b.WriteString(strings.Repeat(unit, nUnits))
						if b.Len() != target {
							panic("alignment arithmetic")
						}
						b.WriteString(probe)
						tail := []string{"", " ", "\n", " " + unit, unit}[t.Draw(5)]
						b.WriteString(tail)
						roleName := []string{"first", "last", "look-ahead"}
						rn := "byte"
						if role < 3 {
							rn = roleName[role]
						}
						add(em, append([]byte(nil), b.Bytes()...), fmt.Sprintf("aligned: %s byte of probe %q at %d*B%+d (B=%d), tail %q", rn, probe, k, d, em.B, tail), fmt.Sprintf("align:%s:%s:%d:%d:%q", em.pkg, rn, k, d, probe))
						res.Count("boundary_alignments", 1)
						if len(probe) > 1 && probe[0] >= 0x80 && role >= 3 {
							res.Count("multibyte_straddles_boundary", 1)
						}
					}
				}
			}
		}
	}

	lap("jobs generated")
	// run the driver over all jobs (several driver processes side by side: the emitted reader
	// allocates a fresh stack block per token, which makes a single process slow)
	nProc := 4
	if len(jobs) < 64 {
		nProc = 1
	}
	type part struct {
		in     bytes.Buffer
		so, se bytes.Buffer
		err    error
		idx    []int
	}
	parts := make([]*part, nProc)
	for p := range parts {
		parts[p] = &part{}
	}
	for i, j := range jobs {
		p := parts[i%nProc]
		b, _ := json.Marshal(job{Pkg: j.em.pkg, Input: base64.StdEncoding.EncodeToString(j.input), D: j.d})
		p.in.Write(b)
		p.in.WriteByte('\n')
		p.idx = append(p.idx, i)
	}
	doneCh := make(chan int, nProc)
	for pi, p := range parts {
		go func(pi int, p *part) {
			run := exec.Command(filepath.Join(dir, "driver"))
			run.Env = append(os.Environ(), "GOGC=300", "GOMEMLIMIT=2GiB") // the emitted stack allocates a block per token: keep the collector close
			run.Stdin = &p.in
			run.Stdout, run.Stderr = &p.so, &p.se
			p.err = run.Run()
			doneCh <- pi
		}(pi, p)
	}
	for range parts {
		<-doneCh
	}
	lines := make([]string, len(jobs))
	for _, p := range parts {
		got := strings.Split(strings.TrimSpace(p.so.String()), "\n")
		if p.err != nil {
			// the driver died (fatal error in emitted code): report with the job it was processing
			done := bytes.Count(p.so.Bytes(), []byte("\n"))
			note := "?"
			if done < len(p.idx) {
				j := jobs[p.idx[done]]
				note = j.note + "\n" + j.em.text
			}
			return res.Fail("emitted_lexer_crashes_process", "the driver process died while tokenising (%v): %s\n%s", p.err, firstLines(p.se.String(), 8), note)
		}
		if len(got) != len(p.idx) {
			panic(fmt.Sprintf("driver answered %d of %d jobs", len(got), len(p.idx)))
		}
		for k, i := range p.idx {
			lines[i] = got[k]
		}
	}
	lap("driver done")
	for i, j := range jobs {
		var o drvOut
		if err := json.Unmarshal([]byte(lines[i]), &o); err != nil {
			panic(err)
		}
		res.Evals++
		want, wantErr := j.em.a.munch(j.input)
		if len(want) >= 2 || wantErr {
			res.Key(j.em.pkg, simrt.HashString(j.em.text)&0xffff, j.key)
		}
		if strings.Contains(j.key, "eof_after_token") {
			res.Count("eof_right_after_token", 1)
		}
		if v := compare(j.em, j.input, want, wantErr, o); v != "" {
			class := strings.SplitN(v, ":", 2)[0]
			if j.d != nil {
				class += "[delivery]"
			}
			x.Tracef("specification:\n%s", j.em.text)
			x.Tracef("input (%d bytes, %s): head %q … tail %q", len(j.input), j.note, clipB(j.input, 60), tailB(j.input, 120))
			res.Violation = &simrt.Violation{Class: class, Message: fmt.Sprintf("%s\n  %s; input of %d bytes ending in %q\n  specification: %s", v, j.note, len(j.input), tailB(j.input, 80), strings.ReplaceAll(j.em.text, "\n", " ")),
				Detail: map[string]any{"input_b64": base64.StdEncoding.EncodeToString(j.input), "specification": j.em.text, "delivery": j.d}}
			return res
		}
	}
	res.Sample = map[string]any{"specifications": len(ems), "jobs": len(jobs), "first_specification": ems[0].text, "first_input": string(clipB(jobs[0].input, 120)), "first_note": jobs[0].note}
	return res
}

func compare(em *emitted, in []byte, want []refTok, wantErr bool, o drvOut) string {
	if strings.HasPrefix(o.End, "PANIC") {
		return "panic: the emitted lexer panicked: " + o.End
	}
	if o.End == "LOOP" {
		return "no_progress: the emitted lexer returned more than 200000 tokens for an input of " + fmt.Sprint(len(in)) + " bytes"
	}
	byteOK, runeOK := true, true
	for i := 0; i < len(want) || i < len(o.Toks); i++ {
		if i >= len(o.Toks) {
			return fmt.Sprintf("token_missing: the automaton yields %d tokens, the emitted lexer returned %d and then %s; first missing: %s %q at byte %d (line %d, column %d)", len(want), len(o.Toks), clipS(o.End, 120), want[i].T, want[i].L, want[i].ByteOff, want[i].Line, want[i].Col)
		}
		if i >= len(want) {
			return fmt.Sprintf("token_extra: the automaton yields %d tokens, the emitted lexer returned a further %s %q", len(want), o.Toks[i].T, o.Toks[i].L)
		}
		w, g := want[i], o.Toks[i]
		if w.T != g.T || w.L != g.L {
			return fmt.Sprintf("token_differs: token %d should be %s %q (byte %d), the emitted lexer returned %s %q", i, w.T, clipS(w.L, 40), w.ByteOff, g.T, clipS(g.L, 40))
		}
		if w.Line != g.Ln || w.Col != g.C {
			return fmt.Sprintf("position_differs: token %d (%s %q) is at line %d column %d, the emitted lexer reports %d:%d", i, w.T, clipS(w.L, 20), w.Line, w.Col, g.Ln, g.C)
		}
		if g.O != w.ByteOff {
			byteOK = false
		}
		if g.O != w.RuneOff {
			runeOK = false
		}
	}
	if !byteOK && !runeOK {
		return "offset_differs: reported offsets are neither the byte offsets nor the character offsets of the tokens"
	}
	if wantErr && !strings.HasPrefix(o.End, "ERR") {
		return fmt.Sprintf("error_missing: after %d tokens the automaton stops in a non-accepting state (lexical error), the emitted lexer ended with %s", len(want), o.End)
	}
	if !wantErr && o.End != "EOF" {
		return fmt.Sprintf("spurious_error: all %d tokens delivered but the emitted lexer ended with %s instead of end-of-input", len(want), clipS(o.End, 160))
	}
	return ""
}

func firstLines(s string, n int) string {
	ls := strings.Split(strings.TrimSpace(s), "\n")
	if len(ls) > n {
		ls = ls[:n]
	}
	return strings.Join(ls, "\n")
}

func excerptAround(s, marker string, n int) string {
	i := strings.Index(s, marker)
	if i < 0 {
		return ""
	}
	if i+n > len(s) {
		n = len(s) - i
	}
	return s[i : i+n]
}

func clipS(s string, n int) string {
	if len(s) > n {
		return s[:n] + "…"
	}
	return s
}

func clipB(b []byte, n int) []byte {
	if len(b) > n {
		return b[:n]
	}
	return b
}

func tailB(b []byte, n int) string {
	if len(b) > n {
		return string(b[len(b)-n:])
	}
	return string(b)
}
