// Package simsync stands in for "sync" in emerge's packages under the scheduler-controlled engine.
// The simulator parks every worker but one; a worker that blocks in a real sync.Mutex held by a
// parked worker would stop the whole simulation although the code is perfectly fine. The blocking
// primitives are therefore acquired by polling: try, and while it fails tell the scheduler that this
// worker is blocked (it runs somebody else) and try again. Every acquisition and release still goes
// through the real primitive, so the race detector sees exactly the happens-before edges the code's
// own synchronisation creates - no more (the hand-off is raw syscalls in //go:norace code), no less.
// Goroutines that are not workers of the simulator (spawned by the code under test) use the real
// blocking operations.
package simsync

import (
	real "sync"
	"sync/atomic"

	"github.com/gardenbed/emerge/zz_verif/simsched"
)

type (
	Pool   = real.Pool
	Map    = real.Map
	Cond   = real.Cond
	Locker = real.Locker
)

func NewCond(l Locker) *Cond { return real.NewCond(l) }

func OnceFunc(f func()) func() {
	var o Once
	return func() { o.Do(f) }
}

func OnceValue[T any](f func() T) func() T {
	var o Once
	var v T
	return func() T {
		o.Do(func() { v = f() })
		return v
	}
}

func OnceValues[T1, T2 any](f func() (T1, T2)) func() (T1, T2) {
	var o Once
	var v1 T1
	var v2 T2
	return func() (T1, T2) {
		o.Do(func() { v1, v2 = f() })
		return v1, v2
	}
}

// Mutex is sync.Mutex acquired by polling under the simulator.
type Mutex struct{ m real.Mutex }

func (m *Mutex) Lock() {
	if !simsched.Controlled() {
		m.m.Lock()
		return
	}
	for !m.m.TryLock() {
		simsched.YieldBlocked()
	}
}
func (m *Mutex) Unlock()       { m.m.Unlock() }
func (m *Mutex) TryLock() bool { return m.m.TryLock() }

// RWMutex is sync.RWMutex acquired by polling under the simulator.
type RWMutex struct{ m real.RWMutex }

func (m *RWMutex) Lock() {
	if !simsched.Controlled() {
		m.m.Lock()
		return
	}
	for !m.m.TryLock() {
		simsched.YieldBlocked()
	}
}
func (m *RWMutex) Unlock()       { m.m.Unlock() }
func (m *RWMutex) TryLock() bool { return m.m.TryLock() }
func (m *RWMutex) RLock() {
	if !simsched.Controlled() {
		m.m.RLock()
		return
	}
	for !m.m.TryRLock() {
		simsched.YieldBlocked()
	}
}
func (m *RWMutex) RUnlock()        { m.m.RUnlock() }
func (m *RWMutex) TryRLock() bool  { return m.m.TryRLock() }
func (m *RWMutex) RLocker() Locker { return (*rlocker)(m) }

type rlocker RWMutex

func (r *rlocker) Lock()   { (*RWMutex)(r).RLock() }
func (r *rlocker) Unlock() { (*RWMutex)(r).RUnlock() }

// Once is sync.Once whose waiters poll: Do returns only after the first call's f has returned, and
// that completion happens before the return of every Do (the mutex and the atomic flag carry the edge).
type Once struct {
	done atomic.Uint32
	m    Mutex
}

func (o *Once) Do(f func()) {
	if o.done.Load() == 1 {
		return
	}
	o.m.Lock()
	defer o.m.Unlock()
	if o.done.Load() == 0 {
		defer o.done.Store(1)
		f()
	}
}

// WaitGroup is sync.WaitGroup whose Wait polls under the simulator.
type WaitGroup struct {
	wg real.WaitGroup
	n  atomic.Int64
}

func (w *WaitGroup) Add(d int) { w.n.Add(int64(d)); w.wg.Add(d) }
func (w *WaitGroup) Done()     { w.n.Add(-1); w.wg.Done() }
func (w *WaitGroup) Go(f func()) {
	w.Add(1)
	go func() {
		defer w.Done()
		f()
	}()
}
func (w *WaitGroup) Wait() {
	if simsched.Controlled() {
		for w.n.Load() > 0 {
			simsched.YieldBlocked()
		}
	}
	w.wg.Wait()
}
