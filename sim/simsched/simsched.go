// Package simsched is the simulated scheduler. The code under test runs on real goroutines, but
// only one of them is ever runnable: each parks at Yield(site) - inserted by the rewriter at every
// function entry and before every statement that mentions a package-level variable - and is
// released by the scheduler, which takes the next one from the tape.
//
// Parking and release use raw read(2)/write(2) on per-goroutine pipes issued through
// syscall.Syscall inside //go:norace functions. The Go race detector models channels, mutexes,
// atomics and syscall.Read/Write, but not raw syscalls, so the hand-off that serialises execution
// creates no happens-before edge the detector can see: built with -race, the detector becomes the
// simulator's access monitor and reports exactly the pairs of accesses to shared memory that are
// unordered by the code's own synchronisation, while the interleaving is decided by the tape.
package simsched

import (
	"sync"
	"syscall"
	"unsafe"
)

type worker struct {
	id     int
	rd, wr int // this worker's gate
}

var (
	active  bool
	cur     *worker
	schedRd int
	schedWr int
	// reach
	SiteHits  map[int]int
	Steps     int
	Switches  int
	Adjacent  map[[2]int]int // (site before the switch, site after the switch)
	lastSite  int
	yieldSite [256]int
)

//go:norace
func rawRead(fd int) byte {
	var b [1]byte
	for {
		n, _, e := syscall.Syscall(syscall.SYS_READ, uintptr(fd), uintptr(unsafe.Pointer(&b[0])), 1)
		if e == syscall.EINTR {
			continue
		}
		if e != 0 || n != 1 {
			panic("simsched: gate read failed")
		}
		return b[0]
	}
}

//go:norace
func rawWrite(fd int, v byte) {
	b := [1]byte{v}
	for {
		n, _, e := syscall.Syscall(syscall.SYS_WRITE, uintptr(fd), uintptr(unsafe.Pointer(&b[0])), 1)
		if e == syscall.EINTR {
			continue
		}
		if e != 0 || n != 1 {
			panic("simsched: gate write failed")
		}
		return
	}
}

// Yield is a scheduling point. Outside a simulated run (package initialisation, isolated
// reference runs) it does nothing.
//
//go:norace
func Yield(site int) {
	if !active || cur == nil {
		return
	}
	w := cur
	yieldSite[w.id] = site
	rawWrite(schedWr, byte(w.id))
	rawRead(w.rd)
	cur = w
}

// GlobalSiteBase: yield sites numbered from here on sit directly before a statement that mentions a
// package-level variable (the rewriter numbers function-entry sites below it).
const GlobalSiteBase = 1_000_000

// Chooser picks the next worker to run among the runnable ones; last is the one that just
// yielded (-1 at the start), step counts scheduling decisions, site is where last yielded.
type Chooser func(runnable []int, last int, step int, site int) int

// Run executes the workers under the simulated scheduler and returns the schedule (sequence of
// worker ids, one per decision, run-length compressed by the caller if needed).
//
//go:norace
func Run(fns []func(), choose Chooser, maxSteps int) (schedule []byte, ok bool) {
	if len(fns) > 100 {
		panic("too many workers")
	}
	var p [2]int
	if err := syscall.Pipe(p[:]); err != nil {
		panic(err)
	}
	schedRd, schedWr = p[0], p[1]
	ws := make([]*worker, len(fns))
	for i := range fns {
		var q [2]int
		if err := syscall.Pipe(q[:]); err != nil {
			panic(err)
		}
		ws[i] = &worker{id: i, rd: q[0], wr: q[1]}
	}
	if SiteHits == nil {
		SiteHits = map[int]int{}
		Adjacent = map[[2]int]int{}
	}
	yieldSite = [256]int{} // a worker that has not started yet is "at site 0", whatever ran before in this process
	var wg sync.WaitGroup
	done := make([]bool, len(fns))
	active = true
	for i := range fns {
		wg.Add(1)
		go runWorker(ws[i], fns[i], &wg)
	}
	last := -1
	ok = true
	for {
		var runnable []int
		for i := range fns {
			if !done[i] {
				runnable = append(runnable, i)
			}
		}
		if len(runnable) == 0 {
			break
		}
		site := 0
		if last >= 0 {
			site = yieldSite[last]
		}
		next := choose(runnable, last, Steps, site)
		Steps++
		if last >= 0 && next != last {
			Switches++
			Adjacent[[2]int{yieldSite[last], yieldSite[next]}]++
		}
		schedule = append(schedule, byte(next))
		rawWrite(ws[next].wr, 1)
		v := rawRead(schedRd)
		id := int(v & 0x7f)
		if v&0x80 != 0 {
			done[id] = true
			last = -1
		} else {
			last = id
			SiteHits[yieldSite[id]]++
		}
		if Steps > maxSteps {
			ok = false
			// let everything run to completion without further control
			active = false
			for i := range fns {
				if !done[i] {
					rawWrite(ws[i].wr, 1)
				}
			}
			break
		}
	}
	active = false
	cur = nil
	wg.Wait() // join edges order worker -> main only, never worker -> worker
	syscall.Close(schedRd)
	syscall.Close(schedWr)
	for _, w := range ws {
		syscall.Close(w.rd)
		syscall.Close(w.wr)
	}
	return schedule, ok
}

//go:norace
func runWorker(w *worker, fn func(), wg *sync.WaitGroup) {
	defer wg.Done()
	rawRead(w.rd)
	cur = w
	fn()
	cur = nil
	if active {
		rawWrite(schedWr, byte(w.id)|0x80)
	}
}

// ResetReach clears the reach counters (per case).
//
//go:norace
func ResetReach() {
	SiteHits = map[int]int{}
	Adjacent = map[[2]int]int{}
	Steps, Switches = 0, 0
}
