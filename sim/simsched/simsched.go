// Package simsched is the simulated scheduler. The code under test runs on real goroutines, but
// only one of them is ever runnable: each parks at Yield(site) - inserted by the rewriter at every
// function entry and before every statement that mentions a package-level variable - and is
// released by the scheduler, which takes the next one from the tape.
//
// Parking and release use raw read(2)/write(2) on per-goroutine pipes issued through
// syscall.Syscall inside //go:norace functions. The Go race detector models channels, mutexes,
// atomics and syscall.Read/Write, but not raw syscalls, so the hand-off that serialises execution
// creates no happens-before edge the detector can see: built with -race, the detector becomes the
// simulator's access monitor and reports exactly the pairs of accesses to shared memory that are
// unordered by the code's own synchronisation, while the interleaving is decided by the tape.
package simsched

import (
	"runtime"
	"sync"
	"syscall"
	"time"
	"unsafe"
)

type worker struct {
	id     int
	rd, wr int // this worker's gate
	goid   uint64
}

// GoroutineMode is switched on (by an init function the rewriter adds) when the code under test
// contains go statements. The goroutines it spawns are not workers of the simulator: they run
// under the Go scheduler, and a yield point reached by one of them does nothing. Telling them from
// the workers needs the identity of the calling goroutine, which costs a microsecond per yield
// point; without go statements in the tree the single running worker is simply remembered.
var GoroutineMode bool

// Deadlocked is set by Run when every unfinished worker has been waiting for a lock, a Once or a
// WaitGroup for ten seconds without anybody making a step.
var Deadlocked bool

// BlockedPolls counts the scheduling points at which a worker found a lock, a Once or a WaitGroup
// not ready and handed the processor to another worker (touched by the running worker only).
var BlockedPolls int

var workers []*worker // immutable while a run is active

//go:norace
func goid() uint64 {
	var buf [40]byte
	n := runtime.Stack(buf[:], false)
	// "goroutine 123 ["
	var id uint64
	for i := len("goroutine "); i < n && buf[i] >= '0' && buf[i] <= '9'; i++ {
		id = id*10 + uint64(buf[i]-'0')
	}
	return id
}

// me is the worker the calling goroutine is, or nil.
//
//go:norace
func me() *worker {
	if !active {
		return nil
	}
	if !GoroutineMode {
		return cur
	}
	g := goid()
	for _, w := range workers {
		if w.goid == g {
			return w
		}
	}
	return nil
}

// Controlled reports whether the calling goroutine is a worker of a running simulation.
//
//go:norace
func Controlled() bool { return me() != nil }

// YieldBlocked is the scheduling point of a worker that cannot proceed until somebody else has
// made a step (it polls a lock, a Once or a WaitGroup): the scheduler runs another worker.
//
//go:norace
func YieldBlocked() {
	w := me()
	if w == nil {
		runtime.Gosched()
		return
	}
	yieldSite[w.id] = blockedSite
	BlockedPolls++
	rawWrite(schedWr, byte(w.id)|0x40)
	rawRead(w.rd)
	if !GoroutineMode {
		cur = w
	}
}

const blockedSite = -100

var (
	active  bool
	cur     *worker
	schedRd int
	schedWr int
	// reach
	SiteHits  map[int]int
	Steps     int
	Switches  int
	Adjacent  map[[2]int]int // (site before the switch, site after the switch)
	lastSite  int
	yieldSite [256]int
)

//go:norace
func rawRead(fd int) byte {
	var b [1]byte
	for {
		n, _, e := syscall.Syscall(syscall.SYS_READ, uintptr(fd), uintptr(unsafe.Pointer(&b[0])), 1)
		if e == syscall.EINTR {
			continue
		}
		if e != 0 || n != 1 {
			panic("simsched: gate read failed")
		}
		return b[0]
	}
}

//go:norace
func rawWrite(fd int, v byte) {
	b := [1]byte{v}
	for {
		n, _, e := syscall.Syscall(syscall.SYS_WRITE, uintptr(fd), uintptr(unsafe.Pointer(&b[0])), 1)
		if e == syscall.EINTR {
			continue
		}
		if e != 0 || n != 1 {
			panic("simsched: gate write failed")
		}
		return
	}
}

// Yield is a scheduling point. Outside a simulated run (package initialisation, isolated
// reference runs) it does nothing.
//
//go:norace
func Yield(site int) {
	if !active {
		return
	}
	w := me()
	if w == nil {
		return
	}
	yieldSite[w.id] = site
	rawWrite(schedWr, byte(w.id))
	rawRead(w.rd)
	if !GoroutineMode {
		cur = w
	}
}

// GlobalSiteBase: yield sites numbered from here on sit directly before a statement that mentions a
// package-level variable (the rewriter numbers function-entry sites below it).
const GlobalSiteBase = 1_000_000

// Chooser picks the next worker to run among the runnable ones; last is the one that just
// yielded (-1 at the start), step counts scheduling decisions, site is where last yielded.
type Chooser func(runnable []int, last int, step int, site int) int

// Run executes the workers under the simulated scheduler and returns the schedule (sequence of
// worker ids, one per decision, run-length compressed by the caller if needed).
//
//go:norace
func Run(fns []func(), choose Chooser, maxSteps int) (schedule []byte, ok bool) {
	if len(fns) > 60 {
		panic("too many workers")
	}
	Deadlocked = false
	var p [2]int
	if err := syscall.Pipe(p[:]); err != nil {
		panic(err)
	}
	schedRd, schedWr = p[0], p[1]
	ws := make([]*worker, len(fns))
	for i := range fns {
		var q [2]int
		if err := syscall.Pipe(q[:]); err != nil {
			panic(err)
		}
		ws[i] = &worker{id: i, rd: q[0], wr: q[1]}
	}
	if SiteHits == nil {
		SiteHits = map[int]int{}
		Adjacent = map[[2]int]int{}
	}
	yieldSite = [256]int{} // a worker that has not started yet is "at site 0", whatever ran before in this process
	var wg sync.WaitGroup
	done := make([]bool, len(fns))
	blocked := make([]bool, len(fns))
	workers = ws
	for i := range fns {
		wg.Add(1)
		go runWorker(ws[i], fns[i], &wg)
	}
	// every worker has registered itself (and is parked at its gate) before the first decision
	for range fns {
		rawRead(schedRd)
	}
	active = true
	last := -1
	ok = true
	stuckSince := time.Time{}
	for {
		var runnable []int
		left := 0
		for i := range fns {
			if !done[i] {
				left++
				if !blocked[i] {
					runnable = append(runnable, i)
				}
			}
		}
		if left == 0 {
			break
		}
		if len(runnable) == 0 {
			// everybody polls: goroutines outside the simulator may still release what they wait for
			if stuckSince.IsZero() {
				stuckSince = time.Now()
			} else if time.Since(stuckSince) > 10*time.Second {
				Deadlocked = true
			}
			time.Sleep(200 * time.Microsecond)
			for i := range blocked {
				blocked[i] = false
			}
			if !Deadlocked {
				continue
			}
			for i := range fns {
				if !done[i] {
					runnable = append(runnable, i)
				}
			}
			Steps = maxSteps + 1 // let go of everything below
		}
		site := 0
		if last >= 0 {
			site = yieldSite[last]
		}
		next := choose(runnable, last, Steps, site)
		Steps++
		if last >= 0 && next != last {
			Switches++
			Adjacent[[2]int{yieldSite[last], yieldSite[next]}]++
		}
		schedule = append(schedule, byte(next))
		rawWrite(ws[next].wr, 1)
		v := rawRead(schedRd)
		id := int(v & 0x3f)
		switch {
		case v&0x80 != 0:
			done[id] = true
			last = -1
		case v&0x40 != 0:
			blocked[id] = true
			last = id
		default:
			last = id
			SiteHits[yieldSite[id]]++
		}
		if v&0x40 == 0 {
			// somebody made a step: whatever the others wait for may have changed
			stuckSince = time.Time{}
			for i := range blocked {
				if i != id {
					blocked[i] = false
				}
			}
		}
		if Steps > maxSteps {
			ok = false
			// let everything run to completion without further control
			active = false
			for i := range fns {
				if !done[i] {
					rawWrite(ws[i].wr, 1)
				}
			}
			break
		}
	}
	active = false
	cur = nil
	wg.Wait() // join edges order worker -> main only, never worker -> worker
	syscall.Close(schedRd)
	syscall.Close(schedWr)
	for _, w := range ws {
		syscall.Close(w.rd)
		syscall.Close(w.wr)
	}
	return schedule, ok
}

//go:norace
func runWorker(w *worker, fn func(), wg *sync.WaitGroup) {
	defer wg.Done()
	w.goid = goid()
	rawWrite(schedWr, 0xff) // registered
	rawRead(w.rd)
	if !GoroutineMode {
		cur = w
	}
	fn()
	if !GoroutineMode {
		cur = nil
	}
	if active {
		rawWrite(schedWr, byte(w.id)|0x80)
	}
}

// ResetReach clears the reach counters (per case).
//
//go:norace
func ResetReach() {
	SiteHits = map[int]int{}
	Adjacent = map[[2]int]int{}
	Steps, Switches, BlockedPolls = 0, 0, 0
}
