package lexer

// VerifBufferSize exposes the size of one buffer half to the verification harness (scratch copy only).
const VerifBufferSize = bufferSize
