package parser

import "github.com/moorara/algo/grammar"

// VerifProductions exposes the embedded production list to the verification harness (scratch copy only).
func VerifProductions() []*grammar.Production { return productions }
