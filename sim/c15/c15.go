// Package c15 decides property C15: the same specification and options give byte-identical files
// and, on failure, the same diagnostics in the same order - independent of the process, of
// hash-map iteration order and of the wall clock that seeds the dependency's shuffling tables.
// Under simulation the order of every map range and the seed of every PRNG is a tape value:
// sorted vs reversed exposes an order dependence deterministically.
package c15

import (
	"bytes"
	"fmt"
	"os"
	"os/exec"
	"path/filepath"
	"regexp"
	"runtime"
	"sort"
	"strings"
	"time"

	simctl "github.com/moorara/algo/zz_simctl"

	"github.com/gardenbed/emerge/internal/ebnf/parser/spec"
	"github.com/gardenbed/emerge/zz_verif/emergecli"
	"github.com/gardenbed/emerge/zz_verif/gen"
	"github.com/gardenbed/emerge/zz_verif/simos"
	"github.com/gardenbed/emerge/zz_verif/simrt"
	"github.com/gardenbed/emerge/zz_verif/simui"
)

type Engine struct {
	EmergeBin  string
	FixtureDir string
}

func (Engine) ID() string { return "C15" }

func (Engine) Meta() simrt.Meta {
	return simrt.Meta{
		Level: "exploration",
		Rule: "a case = one (specification, options) pair run through the real main/command/generator under K order configurations (map-range policy sorted / reversed / seeded permutation x PRNG-and-clock seed) in one process, plus m fresh real processes; an evaluation = one pipeline run; " +
			"distinct_nontrivial counts distinct (specification text, option set, policy pair compared, clock seed changed or not) tuples for which at least one map range over >= 2 keys or one reseeded shuffle was executed, i.e. runs in which an order dependence could have shown; single-diagnostic and single-key runs are evaluated but not counted",
		Assumptions: []string{
			"Go toolchain; the maprange rewrite (snapshot keys, look up on visit) only produces iteration behaviours the Go specification allows; map key types in scope are ordered kinds (the rewriter reports each site)",
			"the dependency's only clock use is seeding math/rand (verified by the import rewrite: any other use of package time in set/sort/symboltable is a build error)",
			"decorative emoji are rune-typed format arguments and are dropped by the recording UI; colour escapes are stripped",
		},
		RealCode:    []string{"cmd/emerge/main.go (rewritten entry)", "internal/command", "internal/ebnf/*", "internal/regex/*", "internal/generate/golang", "moorara/algo (scratch copy: map ranges and clock rewritten)", "real emerge binary (fresh-process tier)"},
		Stubs:       []string{"map iteration order", "wall clock / PRNG seeds of the dependency", "operating system (simos)", "terminal (simui)"},
		FaultKinds:  []string{"order_sorted", "order_reversed", "order_permuted", "clock_seed_changed", "gomaxprocs_changed", "fresh_process"},
		CaseTimeout: 180 * time.Second,
	}
}

func (e Engine) Plan(tier string, seed uint64) []simrt.Case {
	n := 400
	if tier == "thorough" {
		n = 1500
	}
	var cs []simrt.Case
	for i := 0; i < n; i++ {
		cs = append(cs, simrt.Case{Index: i, Seed: simrt.Mix(seed, 15, uint64(i)), Args: []int{-1}})
	}
	if tier == "thorough" {
		// the shipped fixture grammars: large tables, many map ranges and shuffles (slow LALR construction)
		for f := range fixtures {
			cs = append(cs, simrt.Case{Index: len(cs), Seed: simrt.Mix(seed, 1500, uint64(f)), Args: []int{f}, Label: fixtures[f]})
		}
	}
	return cs
}

var fixtures = []string{"test.success.grammar", "ebnf.grammar", "pascal.grammar", "test.invalid.grammar", "test.error.grammar"}

var multiDiag = []string{
	// >= 2 undefined tokens, >= 2 duplicate values, >= 2 multiple definitions
	"grammar md;\nAA = \"same\"; BB = \"same\"; CC = \"dup2\"; DD = \"dup2\";\nstart = U1 U2 U3 AA BB CC DD;\n",
	"grammar md;\nNUM = /[0-9]+/; NUM = /[0-9]/; ID = /[a-z]+/; ID = /[a-z]/; ID = \"x\";\nstart = NUM ID UNDEF_A UNDEF_B;\n",
	"grammar md;\nstart = T1 | T2 | T3 | T4 | T5;\n",
	"grammar md;\nAA = \"v\"; BB = \"v\"; CC = \"v\"; DD = \"w\"; EE = \"w\";\nstart = AA BB CC DD EE;\n",
	// >= 2 overlapping pattern pairs
	"grammar md;\nAA = /[a-z]+/; BB = /[a-c]+/; CC = /[0-9]+/; DD = /[0-5]+/;\nstart = AA BB CC DD;\n",
	"grammar md;\nAA = /ab*/; BB = /a+/; CC = /xy*/; DD = /x+/; EE = /[x-z]/;\nstart = AA | BB | CC | DD | EE;\n",
	// invalid patterns (several)
	"grammar md;\nAA = /[z-a]/; BB = /a{3,1}/; CC = /(/;\nstart = AA BB CC;\n",
	// unresolved LALR conflicts (several)
	"grammar md;\nstart = start \"+\" start | start \"*\" start | start \"-\" start | \"n\";\n",
	"grammar md;\nstart = a | b | c;\na = \"x\";\nb = \"x\";\nc = \"x\" \"y\" | \"x\";\n",
	"grammar md;\nstart = start start | \"a\" | ;\n",
	// unresolved conflicts on rules the tool generates itself for groups of several symbols (their
	// names carry a running number)
	"grammar md;\nID = /[a-z]+/;\nstart = [ ID \",\" ] ID;\n",
	"grammar md;\nstart = [ \"x\" \"y\" ] [ \"x\" \"z\" ] \"x\" | ( \"x\" \"y\" | \"x\" ) \"y\";\n",
	"grammar md;\nID = /[a-z]+/;\nstart = { ID \"=\" ID } [ ID \";\" ] ID;\nother = {{ ID ID }} ID;\n",
	// missing start plus other problems
	"grammar md;\nAA = \"q\"; BB = \"q\";\nrule = U1 U2 AA BB;\nother = missing1 missing2;\n",
	// precedence handles in several levels
	"grammar md;\n@left \"+\" \"-\";\n@right \"+\" \"*\";\n@none \"-\" \"*\";\nstart = start \"+\" start | start \"-\" start | start \"*\" start | \"n\";\n",
}

var ansiRE = regexp.MustCompile("\x1b\\[[0-9;]*m")

type tuple struct {
	exit  int
	files map[string]string
	log   []string
	crash string
}

func (a tuple) diff(b tuple) string {
	if a.crash != b.crash {
		return fmt.Sprintf("crash: %q vs %q", a.crash, b.crash)
	}
	if a.exit != b.exit {
		return fmt.Sprintf("exit status %d vs %d", a.exit, b.exit)
	}
	var names []string
	for n := range a.files {
		names = append(names, n)
	}
	for n := range b.files {
		if _, ok := a.files[n]; !ok {
			names = append(names, n)
		}
	}
	sort.Strings(names)
	for _, n := range names {
		x, okx := a.files[n]
		y, oky := b.files[n]
		if okx != oky {
			return fmt.Sprintf("file set differs: %s present=%v vs %v", n, okx, oky)
		}
		if x != y {
			xl, yl := strings.Split(x, "\n"), strings.Split(y, "\n")
			for i := 0; i < len(xl) && i < len(yl); i++ {
				if xl[i] != yl[i] {
					return fmt.Sprintf("bytes of %s differ at line %d:\n    A: %s\n    B: %s", n, i+1, clip(xl[i]), clip(yl[i]))
				}
			}
			return fmt.Sprintf("bytes of %s differ in length (%d vs %d)", n, len(x), len(y))
		}
	}
	if len(a.log) != len(b.log) {
		return fmt.Sprintf("number of messages differs: %d vs %d", len(a.log), len(b.log))
	}
	for i := range a.log {
		if a.log[i] != b.log[i] {
			xl, yl := strings.Split(a.log[i], "\n"), strings.Split(b.log[i], "\n")
			for j := 0; j < len(xl) && j < len(yl); j++ {
				if xl[j] != yl[j] {
					return fmt.Sprintf("diagnostics differ (message %d, line %d):\n    A: %s\n    B: %s", i, j+1, clip(xl[j]), clip(yl[j]))
				}
			}
			return fmt.Sprintf("message %d differs in length", i)
		}
	}
	return ""
}

func clip(s string) string {
	if len(s) > 300 {
		return s[:300] + "…"
	}
	return s
}

var devnull *os.File

func runConfig(text string, flags []string, policy int, seed uint64, procs int) (tp tuple, multi int, clockReads int) {
	if procs > 0 {
		// the number of CPUs the run may use is part of "the process": output must not depend on it
		defer runtime.GOMAXPROCS(runtime.GOMAXPROCS(procs))
	}
	simctl.Begin(policy, seed)
	simui.Reset()
	w := simos.NewWorld()
	w.Put("/work/in/spec.grammar", "file", text, 0o644)
	w.Put("/outdir", "dir", "", 0o755)
	p := w.NewProc(append(append([]string{"emerge", "-out", "/outdir"}, flags...), "/work/in/spec.grammar"), "/work")
	w.Switch(p)
	if devnull == nil {
		devnull, _ = os.OpenFile(os.DevNull, os.O_WRONLY, 0)
	}
	so, se := os.Stdout, os.Stderr
	os.Stdout, os.Stderr = devnull, devnull
	code, crashed, stack := w.RunMain(p, emergecli.VerifMain)
	os.Stdout, os.Stderr = so, se
	tp.exit = code
	if crashed != nil {
		tp.crash = fmt.Sprintf("%v at %s", crashed, simrt.PanicSite(stack, false))
	}
	tp.files = map[string]string{}
	for pth, ent := range w.Snapshot() {
		if strings.HasPrefix(pth, "/outdir/") && ent.Kind == "file" {
			tp.files[pth] = ent.Data
		}
	}
	for _, m := range simui.Log {
		if m.Shown {
			tp.log = append(tp.log, m.Method+": "+ansiRE.ReplaceAllString(m.Text, ""))
		}
	}
	tp.log = append(tp.log, "STDERR: "+stripEmoji(ansiRE.ReplaceAllString(string(p.Err.Buf), "")))
	return tp, simctl.RangesMulti, simctl.ClockReads
}

// stripEmoji drops every rune outside the Basic Latin..Latin-1 range and the bullet used by the
// error formatter; decorative emoji live far above.
func stripEmoji(s string) string {
	var b strings.Builder
	for _, r := range s {
		if r < 0x2000 || r == '•' || r == '→' || r == 'ε' {
			b.WriteRune(r)
		}
	}
	return b.String()
}

func (e Engine) Run(t *simrt.Tape, c simrt.Case, x *simrt.Ctx) *simrt.Result {
	res := simrt.NewResult()
	var text, class string
	fixture := len(c.Args) > 0 && c.Args[0] >= 0
	switch k := t.Draw(11); {
	case k == 10 && !fixture:
		// MANY diagnostics of one kind: more than any small round limit a reporter might apply
		// (first ten, first sixteen, ...) - a cut taken before the order is fixed shows as a changing set
		class = "many_diagnostics"
		n := []int{11, 12, 14, 17, 21, 33, 65, 130}[t.Draw(8)]
		var b strings.Builder
		b.WriteString("grammar many;\n")
		switch t.Draw(4) {
		case 0: // undefined rule names
			b.WriteString("start =")
			for i := 0; i < n; i++ {
				fmt.Fprintf(&b, " u%c%d", 'a'+byte((i*7)%26), i)
			}
			b.WriteString(";\n")
		case 1: // undefined tokens
			b.WriteString("start =")
			for i := 0; i < n; i++ {
				fmt.Fprintf(&b, " T%c%d", 'A'+byte((i*11)%26), i)
			}
			b.WriteString(";\n")
		case 2: // tokens defined twice
			for i := 0; i < n; i++ {
				fmt.Fprintf(&b, "K%c%d = \"v%d\";\nK%c%d = \"w%d\";\n", 'A'+byte((i*5)%26), i, i, 'A'+byte((i*5)%26), i, i)
			}
			b.WriteString("start = \"x\";\n")
		default: // pairs of tokens with the same value
			for i := 0; i < n; i++ {
				fmt.Fprintf(&b, "P%c%d = \"same%d\";\nQ%c%d = \"same%d\";\n", 'A'+byte((i*3)%26), i, i, 'A'+byte((i*17)%26), i, i)
			}
			b.WriteString("start = \"x\";\n")
		}
		text = b.String()
	case fixture:
		b, err := os.ReadFile(filepath.Join(e.FixtureDir, fixtures[c.Args[0]]))
		if err != nil {
			panic(err)
		}
		class, text = "fixture:"+fixtures[c.Args[0]], string(b)
	case k <= 3:
		class = gen.InAccepted
		_, text = gen.GenInput(t, class)
	case k <= 5:
		class = "multi_diagnostic"
		text = multiDiag[t.Draw(len(multiDiag))]
	case k <= 7:
		class = "multi_diagnostic_random"
		text = gen.GenMultiDiag(t)
	case k == 8:
		class = gen.InputClasses[3+t.Draw(len(gen.InputClasses)-3)]
		_, text = gen.GenInput(t, class)
	default:
		// a generated random specification: most are rejected with assorted diagnostics
		class = "random_spec"
		s := gen.GenSpec(t, gen.GenOpts{AllowInvalid: true, MaxRules: 3})
		text = string(gen.Render(s, gen.Style{Baseline: true}).Text)
	}
	var flags []string
	if t.Chance(1, 3) {
		flags = append(flags, "-name", []string{"pkg_a", "other"}[t.Draw(2)])
	}
	if t.Chance(1, 3) {
		flags = append(flags, "-debug")
	}
	if t.Chance(1, 3) {
		flags = append(flags, "-verbose")
	}
	// The dependency's LALR construction is quadratic-or-worse in the number of items: a grammar
	// with many productions is dropped from the workload before any oracle is evaluated.
	if n := productionCount(text); n > 12 && !fixture {
		res.Skipped++
		res.Count("skipped_slow_grammar", 1)
		return res
	}
	x.Tracef("class=%s flags=%q", class, flags)
	x.Tracef("input: %q", text)

	K := 6
	if x.Tier == "thorough" {
		K = 12
	}
	if fixture {
		K = 4
	}
	type cfg struct {
		policy int
		seed   uint64
		procs  int
	}
	cfgs := []cfg{{simctl.Sorted, 1, 1}, {simctl.Reversed, 1, 1}, {simctl.Sorted, 0x9e3779b9, 1}, {simctl.Permuted, uint64(t.Draw(1 << 30)), 1}, {simctl.Sorted, 1, 4}, {simctl.Sorted, 1, 3}}
	for len(cfgs) < K {
		cfgs = append(cfgs, cfg{t.Draw(3), uint64(t.Draw(1 << 30)), []int{1, 2, 8, 16}[t.Draw(4)]})
	}
	var first tuple
	for i, cf := range cfgs {
		tp, multi, clk := runConfig(text, flags, cf.policy, cf.seed, cf.procs)
		res.Evals++
		res.Count([]string{"order_sorted", "order_reversed", "order_permuted"}[cf.policy], 1)
		res.Count("map_ranges_over_2plus_keys", multi)
		res.Count("clock_reads_seeding_prngs", clk)
		if i > 0 && cf.seed != cfgs[0].seed {
			res.Count("clock_seed_changed", 1)
		}
		if i > 0 && cf.procs != cfgs[0].procs {
			res.Count("gomaxprocs_changed", 1)
		}
		if i == 0 {
			first = tp
			continue
		}
		if multi > 0 || clk > 0 {
			res.Key(simrt.HashString(text), fmt.Sprint(flags), cfgs[0].policy, cf.policy, cf.seed != cfgs[0].seed)
		}
		if d := first.diff(tp); d != "" {
			kind := "diagnostics_order"
			switch {
			case strings.HasPrefix(d, "bytes of"), strings.HasPrefix(d, "file set"):
				kind = "file_bytes"
			case strings.HasPrefix(d, "exit"):
				kind = "exit_status"
			case strings.HasPrefix(d, "crash"):
				kind = "crash"
			}
			sig := signature(kind, d)
			if id := knownFinding(x, sig); id != "" {
				res.Known[id]++
				continue
			}
			res.Violation = &simrt.Violation{Class: sig, Message: fmt.Sprintf("same specification and options, two order configurations (A: policy=%d seed=%d GOMAXPROCS=%d, B: policy=%d seed=%d GOMAXPROCS=%d) give different results: %s\n  flags=%q class=%s", cfgs[0].policy, cfgs[0].seed, cfgs[0].procs, cf.policy, cf.seed, cf.procs, d, flags, class),
				Detail: map[string]any{"input": text, "flags": flags}}
			return res
		}
	}

	// fresh real processes (uncontrolled but sound: a difference is a violation by definition)
	if e.EmergeBin != "" && (c.Index%5 == 0 || x.Tier == "thorough" || x.Replay) {
		m := 3
		if x.Replay {
			m = 40 // the fresh-process tier is not controlled: a replay re-samples until it shows again
		}
		var firstReal tuple
		for i := 0; i < m; i++ {
			tp := e.realRun(text, flags, []int{1, 4, 2}[i%3])
			res.Evals++
			res.Count("fresh_process", 1)
			if i == 0 {
				firstReal = tp
				continue
			}
			res.Key("real", class, fmt.Sprint(flags))
			if d := firstReal.diff(tp); d != "" {
				kind := "diagnostics_order"
				switch {
				case strings.HasPrefix(d, "bytes of"), strings.HasPrefix(d, "file set"):
					kind = "file_bytes"
				case strings.HasPrefix(d, "exit"):
					kind = "exit_status"
				case strings.HasPrefix(d, "crash"):
					kind = "crash"
				}
				sig := signature(kind, d)
				if id := knownFinding(x, sig); id != "" {
					res.Volatile["known:"+id]++
					continue
				}
				res.Violation = &simrt.Violation{Class: "real:" + sig, Message: fmt.Sprintf("two fresh emerge processes on the same specification and options differ: %s\n  flags=%q class=%s", d, flags, class), Detail: map[string]any{"input": text, "flags": flags}}
				return res
			}
		}
	}
	if c.Index%10 == 0 {
		res.Sample = map[string]any{"class": class, "flags": flags, "input": text, "configurations": len(cfgs), "exit": first.exit, "files": len(first.files), "messages": len(first.log)}
	}
	return res
}

func productionCount(text string) (n int) {
	defer func() {
		if r := recover(); r != nil {
			n = 0
		}
	}()
	simctl.Begin(simctl.Sorted, 1)
	sp, err := spec.Parse("spec.grammar", strings.NewReader(text))
	if err != nil || sp == nil {
		return 0
	}
	for range sp.Grammar.Productions.All() {
		n++
	}
	return n
}

// signature names the region that differs, so that known findings can be keyed by message site.
func signature(kind, d string) string {
	switch {
	case kind == "crash":
		if i := strings.Index(d, " at "); i >= 0 {
			site := d[i+4:]
			if j := strings.IndexAny(site, "\" "); j >= 0 {
				site = site[:j]
			}
			return "crash@" + site
		}
	case kind == "file_bytes":
		for _, f := range []string{"lexer.go", "parser.go", "input.go", "types.go", "stack.go", "errors.go"} {
			if strings.Contains(d, f) {
				return kind + ":" + f
			}
		}
	case kind == "diagnostics_order":
		for _, site := range []string{"no definition for terminal", "multiple definitions for terminal", "multiple definitions with the same value", "conflicting definitions capture the same string", "invalid predefined regex", "no production rule for non-terminal", "appeared in more than one precedence level", "Ambiguous Grammar", "Error:", "invalid regular expression", "invalid character range", "invalid repetition range"} {
			if strings.Contains(d, site) {
				return kind + ":" + site
			}
		}
	}
	return kind
}

func firstLineWith(s, sub string) string {
	for _, l := range strings.Split(s, "\n") {
		if strings.Contains(l, sub) {
			return l
		}
	}
	return ""
}

func knownFinding(x *simrt.Ctx, sig string) string {
	for _, k := range x.Known {
		if k.Status == "known" && k.Signature != "" && strings.HasPrefix(sig, k.Signature) {
			return k.ID
		}
	}
	return ""
}

func (e Engine) realRun(text string, flags []string, procs int) (tp tuple) {
	dir, err := os.MkdirTemp("", "c15real-")
	if err != nil {
		panic(err)
	}
	defer os.RemoveAll(dir)
	os.Mkdir(filepath.Join(dir, "out"), 0o755)
	in := filepath.Join(dir, "spec.grammar")
	os.WriteFile(in, []byte(text), 0o644)
	args := append(append([]string{"-out", filepath.Join(dir, "out")}, flags...), in)
	cmd := exec.Command(e.EmergeBin, args...)
	cmd.Dir = dir
	cmd.Env = append(os.Environ(), fmt.Sprintf("GOMAXPROCS=%d", procs))
	var so, se bytes.Buffer
	cmd.Stdout, cmd.Stderr = &so, &se
	done := make(chan error, 1)
	if err := cmd.Start(); err != nil {
		panic(err)
	}
	go func() { done <- cmd.Wait() }()
	select {
	case err = <-done:
	case <-time.After(5 * time.Minute):
		cmd.Process.Kill()
		tp.crash = "timeout"
		return
	}
	if ee, ok := err.(*exec.ExitError); ok {
		tp.exit = ee.ExitCode()
	}
	tp.files = map[string]string{}
	filepath.Walk(filepath.Join(dir, "out"), func(p string, info os.FileInfo, err error) error {
		if err == nil && !info.IsDir() {
			b, _ := os.ReadFile(p)
			tp.files[strings.TrimPrefix(p, dir)] = string(b)
		}
		return nil
	})
	clean := func(s string) string {
		return strings.ReplaceAll(stripEmoji(ansiRE.ReplaceAllString(s, "")), dir, "$DIR")
	}
	errText := se.String()
	if i := strings.Index(errText, "goroutine "); i >= 0 && (strings.Contains(errText, "panic:") || strings.Contains(errText, "fatal error:")) {
		// a crash dump: keep the failing call site, drop the addresses
		tp.crash = fmt.Sprintf("%s at %s", firstLineWith(errText, "panic:"), simrt.PanicSite(errText[i:], true))
		errText = errText[:strings.Index(errText, "panic:")]
	}
	tp.log = []string{"STDOUT: " + clean(so.String()), "STDERR: " + clean(errText)}
	return
}
