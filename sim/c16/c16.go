// Package c16 decides property C16 on the simulated file system: the tool exits 0 and announces
// success iff the specification was accepted and every file of the package was completely written
// into <out>/<name>; -name and -out are honoured; an unusable name is rejected before anything is
// created; nothing that existed before the run is modified - under injected disk faults, foreign
// actors racing for the output location, and a second emerge instance.
// The real main, command and generator run in-process; only the operating system is a stub.
package c16

import (
	"fmt"
	"os"
	"os/exec"
	"path"
	"path/filepath"
	"regexp"
	"sort"
	"strings"
	"time"

	"github.com/gardenbed/emerge/internal/ebnf/parser/spec"
	"github.com/gardenbed/emerge/zz_verif/emergecli"
	"github.com/gardenbed/emerge/zz_verif/gen"
	"github.com/gardenbed/emerge/zz_verif/simos"
	"github.com/gardenbed/emerge/zz_verif/simrt"
	"github.com/gardenbed/emerge/zz_verif/simui"
)

type Engine struct {
	TemplateDir string // templates of the working tree (scratch copy)
	// CLIOnly turns the engine into the fault-injecting command-line tier of C14: the same scenarios
	// and fault plans, judged only by C14's clauses (no panic escapes main; a failure is a message
	// plus a non-zero exit status; an unreadable or failing input never ends in success).
	CLIOnly   bool
	EmergeBin string // real binary for the differential transparency tier (optional)

	// files written by the fault-free run of the current scenario (reference for faulted runs)
	reference     map[string]string
	referenceName string
}

func (e Engine) ID() string {
	if e.CLIOnly {
		return "C14"
	}
	return "C16"
}

func (Engine) Meta() simrt.Meta {
	return simrt.Meta{
		Level: "fault_enumeration",
		Rule: "a case = one CLI scenario (flags, input class, name class, pre-existing state of the output location) run fault-free on the simulated file system, then re-run once per (operation of the fault-free history x applicable fault kind) site, once per foreign-actor race point, and under tape-chosen interleavings with a second emerge instance; " +
			"distinct_nontrivial counts distinct (pre-state, flag set, input class, name class) scenario tuples, distinct (operation type, occurrence, fault kind) sites at which a fault actually fired, and distinct two-instance interleavings (hash of the operation order); a scenario is non-trivial iff it reaches the generator (at least one file-system operation after parsing) or is rejected for a reason the property names",
		Assumptions: []string{
			"Go toolchain; simos models the os surface emerge uses (Getwd, Open, Stat, Mkdir, OpenFile O_CREATE|O_WRONLY|O_EXCL, File.Read/Write/Close, Args, Exit, Stdout/Stderr); an unmodelled os member is a build error (exit 2)",
			"the import rewrite os->simos, charm/ui->simui and main->VerifMain is mechanical (textual splices at AST positions) and does not change behaviour",
			"acceptance of a specification is decided independently by calling spec.Parse, Spec.DFA and Spec.LALRParsingTable on the same bytes",
			"expected package file set and static file content are read from the working tree's template directory at check time, rendered by plain string replacement",
		},
		RealCode:    []string{"cmd/emerge/main.go (rewritten entry only)", "internal/command", "internal/generate/golang (+ templates, text/template)", "internal/ebnf/*", "internal/regex/*", "moorara/algo", "flag, charm/flagit"},
		Stubs:       []string{"operating system: file system, process args/exit/std streams (simos)", "terminal UI (recording simui)", "second emerge instance scheduling (tape-driven, switch points = file-system operations)"},
		FaultKinds:  []string{"fault_write_ENOSPC", "fault_write_EIO", "fault_mkdir_EACCES", "fault_mkdir_EROFS", "fault_mkdir_ENOSPC", "fault_openfile_EACCES", "fault_openfile_EMFILE", "fault_openfile_ENOSPC", "fault_open_EACCES", "fault_read_EIO", "fault_stat_EACCES", "fault_stat_EIO", "fault_getwd_ENOENT", "fault_close_EIO", "fault_close_EDQUOT", "fault_sync_EIO", "fault_sync_ENOSPC", "fault_rename_EACCES", "fault_rename_EXDEV", "fault_rename_ENOSPC", "fault_remove_EACCES", "fault_lstat_EACCES", "foreign_create_target_dir", "foreign_remove_out_dir", "foreign_create_target_file", "foreign_replace_out_with_file", "second_instance"},
		CaseTimeout: 240 * time.Second,
	}
}

func (e Engine) Plan(tier string, seed uint64) []simrt.Case {
	n := 400
	if tier == "thorough" {
		n = 2500
	}
	var cs []simrt.Case
	for i := 0; i < n; i++ {
		cs = append(cs, simrt.Case{Index: i, Seed: simrt.Mix(seed, 16, uint64(i))})
	}
	return cs
}

// ---- scenario ---------------------------------------------------------------------------------

type scenario struct {
	Flags      []string `json:"flags"`
	InputClass string   `json:"input_class"`
	InputText  string   `json:"input_text"`
	FileArg    string   `json:"file_arg"`
	FileState  string   `json:"file_state"` // present | missing | directory
	GrammarNm  string   `json:"grammar_name"`
	NameFlag   string   `json:"name_flag"`
	NameClass  string   `json:"name_class"`
	OutClass   string   `json:"out_class"` // default | dir | missing | file | symlink_dir | relative
	OutPath    string   `json:"out_path"`  // resolved absolute parent directory (where it exists)
	OutAbs     string   `json:"out_abs"`   // where the -out value points, resolved (whether or not it exists)
	Pre        string   `json:"pre_state"` // state of <out>/<name>
	Help       bool     `json:"help"`
	Version    bool     `json:"version"`
	Cwd        string   `json:"cwd"`
}

func (s scenario) effectiveName() string {
	if s.NameFlag != "" {
		return s.NameFlag
	}
	return s.GrammarNm
}

var usableRE = regexp.MustCompile(`^[a-z][a-z0-9_]*$`)

var goKeywords = map[string]bool{"break": true, "default": true, "func": true, "interface": true, "select": true, "case": true, "defer": true, "go": true, "map": true, "struct": true, "chan": true, "else": true, "goto": true, "package": true, "switch": true, "const": true, "fallthrough": true, "if": true, "range": true, "type": true, "continue": true, "for": true, "import": true, "return": true, "var": true}
var goPredeclared = map[string]bool{"any": true, "bool": true, "byte": true, "comparable": true, "complex64": true, "complex128": true, "error": true, "float32": true, "float64": true, "int": true, "int8": true, "int16": true, "int32": true, "int64": true, "rune": true, "string": true, "uint": true, "uint8": true, "uint16": true, "uint32": true, "uint64": true, "uintptr": true, "true": true, "false": true, "iota": true, "nil": true, "append": true, "cap": true, "clear": true, "close": true, "complex": true, "copy": true, "delete": true, "imag": true, "len": true, "make": true, "max": true, "min": true, "new": true, "panic": true, "print": true, "println": true, "real": true, "recover": true}

// nameVerdict classifies the effective package name: usable / unusable / grey.
func nameVerdict(n string) string {
	switch {
	case goKeywords[n] || n == "_" || n == "":
		return gen.NameUnusable
	case usableRE.MatchString(n) && !goPredeclared[n]:
		return gen.NameUsable
	}
	for _, r := range n {
		if !(r == '_' || r >= '0' && r <= '9' || r >= 'a' && r <= 'z' || r >= 'A' && r <= 'Z' || r >= 0x80) {
			return gen.NameUnusable // '-', '/', '.', blank, control characters ...
		}
	}
	if n[0] >= '0' && n[0] <= '9' {
		return gen.NameUnusable
	}
	return gen.NameGrey
}

var oddOutValues = []string{"~", "~nobody", "~/gen", "$HOME", "${PWD}", "%s", "%d%n", "a b", "*", "?", "nul", "con", "-", "--", "-out", "é", "x\ty", "a\\b", "C:\\gen", "file:///outdir", "...", "rel/out/../../nope", strings.Repeat("d/", 300) + "e", strings.Repeat("n", 300)}

const (
	sentinel = "SENTINEL pre-existing content - must survive\n"
)

func genScenario(t *simrt.Tape) scenario {
	var s scenario
	s.Cwd = "/work"
	s.InputClass = gen.InputClasses[t.Draw(len(gen.InputClasses))]
	s.GrammarNm, s.InputText = gen.GenInput(t, s.InputClass)
	if t.Chance(1, 12) && s.InputText != "" { // the grammar's own name is a Go keyword
		kw := []string{"func", "type", "go"}[t.Draw(3)]
		s.InputText = strings.Replace(s.InputText, "grammar "+s.GrammarNm, "grammar "+kw, 1)
		s.GrammarNm = kw
	} else {
		t.Draw(1)
	}
	s.NameFlag, s.NameClass = gen.GenName(t)
	s.FileState = []string{"present", "present", "present", "present", "present", "missing", "directory"}[t.Draw(7)]
	s.FileArg = []string{"/work/in/spec.grammar", "in/spec.grammar", "./in/../in/spec.grammar"}[t.Draw(3)]
	s.OutClass = []string{"default", "dir", "dir", "dir", "missing", "file", "symlink_dir", "relative", "odd_missing", "cwd_alias"}[t.Draw(10)]
	outArg := ""
	switch s.OutClass {
	case "default":
		s.OutPath, s.OutAbs = "/work", "/work"
	case "dir":
		s.OutPath, s.OutAbs = "/outdir", "/outdir"
	case "missing":
		s.OutPath, s.OutAbs = "", "/does/not/exist"
	case "file":
		s.OutPath, s.OutAbs = "", "/afile"
	case "symlink_dir":
		s.OutPath, s.OutAbs = "/outdir", "/outdir"
	case "relative":
		s.OutPath, s.OutAbs = "/work/rel/out", "/work/rel/out"
	case "odd_missing":
		// values a shell, a printf or a path library might treat specially; for emerge they are plain
		// relative paths that do not exist
		outArg = oddOutValues[t.Draw(len(oddOutValues))]
		s.OutPath, s.OutAbs = "", path.Join("/work", outArg)
	case "cwd_alias":
		outArg = []string{"", ".", "./", "./.", "in/..", "/work/", "/work/in/../"}[t.Draw(7)]
		s.OutPath, s.OutAbs = "/work", "/work"
	}
	s.Pre = []string{"none", "none", "none", "none", "empty_dir", "dir_with_targets", "file", "symlink_dir", "symlink_file", "dangling_symlink"}[t.Draw(10)]
	// flags, in a drawn order, always before the file argument (documented usage)
	var fl []string
	switch s.OutClass {
	case "dir":
		fl = append(fl, "-out", "/outdir")
	case "missing":
		fl = append(fl, "-out", "/does/not/exist")
	case "file":
		fl = append(fl, "-out=/afile")
	case "symlink_dir":
		fl = append(fl, "-out", "/lnk_outdir")
	case "relative":
		fl = append(fl, "-out", "rel/out")
	case "odd_missing", "cwd_alias":
		if t.Chance(1, 2) || strings.HasPrefix(outArg, "-") {
			fl = append(fl, "-out="+outArg)
		} else {
			fl = append(fl, "-out", outArg)
		}
	}
	if s.NameClass != gen.NameFromGrammar {
		if t.Chance(1, 2) {
			fl = append(fl, "-name", s.NameFlag)
		} else {
			fl = append(fl, "-name="+s.NameFlag)
		}
	} else {
		t.Draw(1)
	}
	if t.Chance(1, 3) {
		fl = append(fl, "-debug")
	}
	if t.Chance(1, 3) {
		fl = append(fl, "-verbose")
	}
	switch t.Draw(12) {
	case 0:
		fl = append(fl, "-help")
		s.Help = true
	case 1:
		fl = append(fl, "-version")
		s.Version = true
	}
	// shuffle whole flag groups (a flag and its value stay together)
	var groups [][]string
	for i := 0; i < len(fl); i++ {
		if (fl[i] == "-out" || fl[i] == "-name") && i+1 < len(fl) {
			groups = append(groups, fl[i:i+2])
			i++
		} else {
			groups = append(groups, fl[i:i+1])
		}
	}
	for i := len(groups) - 1; i > 0; i-- {
		j := t.Draw(i + 1)
		groups[i], groups[j] = groups[j], groups[i]
	}
	for _, g := range groups {
		s.Flags = append(s.Flags, g...)
	}
	return s
}

// build creates the pre-existing world of a scenario.
func (e Engine) build(s scenario, files []string) *simos.World {
	w := simos.NewWorld()
	w.Put("/work", "dir", "", 0o755)
	w.Put("/work/in", "dir", "", 0o755)
	w.Put("/work/notes.txt", "file", sentinel, 0o644)
	w.Put("/work/rel/out", "dir", "", 0o755)
	w.Put("/work/rel/out/keep.me", "file", sentinel, 0o600)
	w.Put("/outdir", "dir", "", 0o755)
	w.Put("/outdir/sibling.go", "file", sentinel, 0o644)
	w.Put("/outdir/otherpkg", "dir", "", 0o700)
	w.Put("/outdir/otherpkg/lexer.go", "file", sentinel, 0o444)
	w.Put("/afile", "file", sentinel, 0o644)
	w.Put("/lnk_outdir", "symlink", "/outdir", 0)
	w.Put("/elsewhere", "dir", "", 0o755)
	w.Put("/elsewhere/lexer.go", "file", sentinel, 0o644)
	w.Put("/elsewhere/afile", "file", sentinel, 0o644)
	switch s.FileState {
	case "present":
		w.Put("/work/in/spec.grammar", "file", s.InputText, 0o644)
	case "directory":
		w.Put("/work/in/spec.grammar", "dir", "", 0o755)
	}
	if s.OutPath != "" {
		name := s.effectiveName()
		if nameVerdict(name) != gen.NameUnusable || (!strings.ContainsAny(name, "/\x00") && name != "." && name != ".." && name != "") {
			target := path.Join(s.OutPath, name)
			if strings.HasPrefix(target, s.OutPath+"/") {
				switch s.Pre {
				case "empty_dir":
					w.Put(target, "dir", "", 0o755)
				case "dir_with_targets":
					w.Put(target, "dir", "", 0o755)
					for i, f := range files {
						if i%2 == 0 {
							w.Put(path.Join(target, f), "file", sentinel, 0o644)
						}
					}
					w.Put(path.Join(target, "README"), "file", sentinel, 0o644)
				case "file":
					w.Put(target, "file", sentinel, 0o644)
				case "symlink_dir":
					w.Put(target, "symlink", "/elsewhere", 0)
				case "symlink_file":
					w.Put(target, "symlink", "/elsewhere/afile", 0)
				case "dangling_symlink":
					w.Put(target, "symlink", "/nowhere/at/all", 0)
				}
			}
		}
	}
	w.Foreign = func(w *simos.World, action, arg string) {
		w.ForeignMode = true
		defer func() { w.ForeignMode = false }()
		switch action {
		case "create_target_dir":
			if ent, ok := w.Lookup(arg); !ok {
				w.Put(arg, "dir", "", 0o755)
				w.Put(path.Join(arg, "foreign.txt"), "file", sentinel, 0o644)
			} else if ent.Kind == "dir" {
				if _, ok := w.Lookup(path.Join(arg, "foreign.txt")); !ok {
					w.Put(path.Join(arg, "foreign.txt"), "file", sentinel, 0o644)
				}
			}
		case "remove_out_dir":
			w.Delete(arg)
		case "create_target_file":
			// only into a real directory chain (never through or over a symlink or a file)
			if _, ok := w.Lookup(arg); !ok {
				if ent, ok := w.Lookup(path.Dir(arg)); !ok || ent.Kind == "dir" {
					w.Put(arg, "file", sentinel, 0o644)
				}
			}
		case "replace_out_with_file":
			w.Delete(arg)
			w.Put(arg, "file", sentinel, 0o644)
		}
	}
	return w
}

// ---- expected package content (R-fs) -----------------------------------------------------------

type tmplInfo struct {
	file   string // e.g. lexer.go
	static bool
	text   string
	head   string
	tail   string
}

var actionRE = regexp.MustCompile(`\{\{[^}]*\}\}`)

func (e Engine) templates() []tmplInfo {
	ents, err := os.ReadDir(e.TemplateDir)
	if err != nil {
		panic(err)
	}
	var out []tmplInfo
	for _, en := range ents {
		if !strings.HasSuffix(en.Name(), ".tmpl") {
			continue
		}
		b, err := os.ReadFile(filepath.Join(e.TemplateDir, en.Name()))
		if err != nil {
			panic(err)
		}
		ti := tmplInfo{file: strings.TrimSuffix(en.Name(), ".tmpl"), text: string(b), static: true}
		locs := actionRE.FindAllStringIndex(ti.text, -1)
		first, last := -1, -1
		for _, l := range locs {
			if ti.text[l[0]:l[1]] != "{{.Package}}" {
				ti.static = false
				if first < 0 {
					first = l[0]
				}
				last = l[1]
			}
		}
		if !ti.static {
			ti.head, ti.tail = ti.text[:first], ti.text[last:]
		}
		out = append(out, ti)
	}
	sort.Slice(out, func(i, j int) bool { return out[i].file < out[j].file })
	return out
}

// ---- one run ------------------------------------------------------------------------------------

type runResult struct {
	code      int
	crashed   any
	stack     string
	announced bool
	errMsgs   int
	hist      []simos.Event
	before    map[string]simos.Entry
	after     map[string]simos.Entry
	stdout    string
	stderr    string
	faults    []*simos.Fault
}

func announcedSuccess(pid int) bool {
	for _, m := range simui.Log {
		if m.Proc != pid || !m.Shown || m.Method == "Errorf" {
			continue
		}
		// the statement says "announces success" without fixing the wording: any of the usual words counts
		if saysSuccess(m.Text) {
			return true
		}
	}
	return false
}

func saysSuccess(text string) bool {
	low := strings.ToLower(text)
	for _, w := range []string{"success", "succeeded", "done", "completed", "finished"} {
		if strings.Contains(low, w) {
			return true
		}
	}
	return false
}

func runOne(w *simos.World, s scenario, faults []*simos.Fault) runResult {
	simui.Reset()
	w.Faults = faults
	p := w.NewProc(append(append([]string{"emerge"}, s.Flags...), s.FileArg), s.Cwd)
	var rr runResult
	rr.before = w.Snapshot()
	w.Switch(p)
	quiet(func() { rr.code, rr.crashed, rr.stack = w.RunMain(p, emergecli.VerifMain) })
	rr.after = w.Snapshot()
	rr.hist = append([]simos.Event(nil), w.Hist...)
	rr.announced = announcedSuccess(p.ID)
	for _, m := range simui.Log {
		if m.Proc == p.ID && m.Method == "Errorf" && m.Shown {
			rr.errMsgs++
		}
	}
	rr.stdout, rr.stderr = string(p.Out.Buf), string(p.Err.Buf)
	rr.faults = faults
	return rr
}

var devnull *os.File

// quiet silences what the code under test prints through the real os package (fmt.Println in
// main's -version branch, the flag package's usage text), which bypasses the simulated streams.
func quiet(f func()) {
	if devnull == nil {
		devnull, _ = os.OpenFile(os.DevNull, os.O_WRONLY, 0)
	}
	so, se := os.Stdout, os.Stderr
	os.Stdout, os.Stderr = devnull, devnull
	defer func() { os.Stdout, os.Stderr = so, se }()
	f()
}

// accepted decides independently whether the bytes form an accepted specification.
func accepted(text string) (ok bool, known bool) {
	defer func() {
		if r := recover(); r != nil {
			ok, known = false, false
		}
	}()
	sp, err := spec.Parse("spec.grammar", strings.NewReader(text))
	if err != nil || sp == nil {
		return false, true
	}
	if _, _, err := sp.DFA(); err != nil {
		return false, true
	}
	if _, err := sp.LALRParsingTable(); err != nil {
		return false, true
	}
	return true, true
}

type verdict struct {
	class string
	msg   string
}

// judge evaluates clauses 1-6 for a single-instance run.
func (e Engine) judge(s scenario, rr runResult, pid int, tmpls []tmplInfo, acc, accKnown, faultFired bool, foreign ...string) *verdict {
	fKind, fArg := "", ""
	if len(foreign) == 2 {
		fKind, fArg = strings.TrimPrefix(foreign[0], "foreign:"), foreign[1]
	}
	if rr.crashed != nil && e.CLIOnly {
		return &verdict{"cli_panic@" + simrt.PanicSite(rr.stack, false), fmt.Sprintf("main panicked (a Go stack trace instead of a message and an exit status): %v", rr.crashed)}
	}
	// (Under C16 a panic of main is a failed run like any other - exit status 2, nothing announced -
	// and is judged by the clauses below; that it is a stack trace instead of a message is C14's matter.)
	if e.CLIOnly {
		if rr.code != 0 && rr.errMsgs == 0 && strings.TrimSpace(rr.stderr) == "" && !s.Help && !s.Version {
			return &verdict{"cli_silent_failure", fmt.Sprintf("exit status %d without any error message", rr.code)}
		}
		for _, ev := range rr.hist {
			if ev.Proc == pid && (ev.Op == "read" || ev.Op == "open") && ev.Fault != "" && ev.Err != "" && rr.code == 0 {
				return &verdict{"cli_input_fault_ends_in_success", fmt.Sprintf("the input could not be read (%s) yet the run exited 0", ev)}
			}
		}
		if s.FileState != "present" && rr.code == 0 && !s.Help && !s.Version {
			return &verdict{"cli_missing_input_ends_in_success", fmt.Sprintf("input file is %s yet the run exited 0", s.FileState)}
		}
		return nil
	}
	// 1. untouched
	var exempt []string
	switch fKind {
	case "remove_out_dir", "replace_out_with_file":
		exempt = append(exempt, fArg) // the foreign actor destroyed this subtree itself
	}
	if v := untouched(rr.before, rr.after, exempt); v != "" {
		return &verdict{"preexisting_modified", v}
	}
	// what the foreign actor created must survive as well (nothing it owns may be clobbered)
	for p2, ent := range rr.after {
		_ = p2
		_ = ent
	}
	for _, keep := range foreignKeeps(fKind, fArg, rr) {
		ent, ok := rr.after[keep]
		if !ok || ent.Kind != "file" || ent.Data != sentinel {
			return &verdict{"foreign_file_clobbered", fmt.Sprintf("%s was created by another actor during the run and has been modified or removed", keep)}
		}
	}
	name := s.effectiveName()
	nv := nameVerdict(name)
	mut := 0
	var firstMut simos.Event
	for _, ev := range rr.hist {
		if ev.Proc == pid && ev.Mutating() {
			if mut == 0 {
				firstMut = ev
			}
			mut++
		}
	}
	// 6. help / version
	if s.Help || s.Version {
		if rr.code != 0 {
			return &verdict{"help_version_exit", fmt.Sprintf("-help/-version exited with status %d", rr.code)}
		}
		if mut > 0 {
			return &verdict{"help_version_mutates", fmt.Sprintf("-help/-version performed %s", firstMut)}
		}
		if rr.announced {
			return &verdict{"help_version_announces", "-help/-version announced success"}
		}
		return nil
	}
	// exit status and announcement go together
	if (rr.code == 0) != rr.announced {
		return &verdict{"exit_vs_announcement", fmt.Sprintf("exit status %d but success announced = %v", rr.code, rr.announced)}
	}
	// 5. reject before create
	if nv == gen.NameUnusable {
		if rr.code == 0 {
			return &verdict{"unusable_name_accepted", fmt.Sprintf("package name %q is not a usable Go package identifier, yet the run succeeded", name)}
		}
		if mut > 0 {
			return &verdict{"unusable_name_after_create", fmt.Sprintf("package name %q is unusable, yet the run performed %s before rejecting it", name, firstMut)}
		}
	}
	if nv == gen.NameGrey && rr.code != 0 && mut > 0 && acc && s.FileState == "present" && s.OutPath != "" && s.Pre == "none" && !faultFired {
		// rejected in the grey zone: must also be before anything was created
		for _, ev := range rr.hist {
			if ev.Proc == pid && ev.Mutating() && ev.Err == "" {
				return &verdict{"grey_name_rejected_after_create", fmt.Sprintf("package name %q was rejected after %s", name, ev)}
			}
		}
	}
	if rr.code != 0 && rr.errMsgs == 0 && strings.TrimSpace(rr.stderr) == "" && rr.crashed == nil {
		return &verdict{"silent_failure", fmt.Sprintf("exit status %d without any error message", rr.code)}
	}
	// 2. success => complete (not judged when a foreign actor removed the output location under the
	// run: the package was written and then taken away, which the property does not speak about)
	if rr.code == 0 && fKind != "remove_out_dir" && fKind != "replace_out_with_file" {
		if accKnown && (!acc || s.FileState != "present") {
			return &verdict{"success_on_rejected_input", fmt.Sprintf("exit 0 and success announced although the specification (%s, file %s) is not accepted", s.InputClass, s.FileState)}
		}
		// (an output location that did not exist and was created by the run is not forbidden by the
		// statement; one that exists as something else than a directory cannot be written into
		// without modifying it - clause 1 - so the package directory cannot be there afterwards)
		target := path.Join(s.OutAbs, name)
		ent, ok := rr.after[target]
		if !ok || ent.Kind != "dir" {
			return &verdict{"success_without_package_dir", fmt.Sprintf("exit 0 but %s is not a directory afterwards (-out/-name not honoured?)", target)}
		}
		// (Writing into a package directory that already existed is not forbidden by the statement as
		// long as nothing in it is modified - that is clause 1 - so neither its prior existence nor
		// who created it is judged here.)
		// exactly the expected file set, complete content
		want := map[string]bool{}
		for _, ti := range tmpls {
			want[ti.file] = true
		}
		for p2 := range rr.after {
			if strings.HasPrefix(p2, target+"/") {
				rel := strings.TrimPrefix(p2, target+"/")
				if rr.after[p2].Created == -1 {
					continue // dropped there by the foreign actor
				}
				if _, existed := rr.before[p2]; existed {
					continue // was there before the run (and is checked by clause 1)
				}
				if !want[rel] {
					return &verdict{"unexpected_file", fmt.Sprintf("unexpected %s in the package directory", rel)}
				}
			}
		}
		for _, ti := range tmpls {
			fe, ok := rr.after[path.Join(target, ti.file)]
			if !ok || fe.Kind != "file" {
				return &verdict{"missing_file", fmt.Sprintf("exit 0 but %s was not written", ti.file)}
			}
			// Completeness is judged structurally (the statement does not fix the bytes): the static
			// text of the template must be in the file in full - a generator that adds a header or a
			// footer of its own is not wrong - and, where a fault-free reference run of the same
			// command exists, a run that met faults yet reports success must have produced the very
			// same bytes.
			if ti.static {
				if exp := strings.ReplaceAll(ti.text, "{{.Package}}", name); !strings.Contains(fe.Data, exp) {
					return &verdict{"incomplete_file", fmt.Sprintf("exit 0 but %s does not contain its template rendering in full (got %d bytes, the rendering has %d)", ti.file, len(fe.Data), len(exp))}
				}
			} else {
				head := strings.ReplaceAll(ti.head, "{{.Package}}", name)
				tail := strings.ReplaceAll(ti.tail, "{{.Package}}", name)
				hi := strings.Index(fe.Data, head)
				if hi < 0 || !strings.Contains(fe.Data[hi+len(head):], tail) {
					return &verdict{"incomplete_file", fmt.Sprintf("exit 0 but %s (%d bytes) lacks the static head/tail of its template", ti.file, len(fe.Data))}
				}
			}
			if ref, ok := e.reference[ti.file]; ok && e.referenceName == name && fe.Data != ref {
				return &verdict{"incomplete_file", fmt.Sprintf("exit 0 but %s (%d bytes) differs from what the fault-free run of the same command wrote (%d bytes)", ti.file, len(fe.Data), len(ref))}
			}
			// 4. package clause
			if !strings.HasPrefix(fe.Data, "package "+name+"\n") && !strings.Contains(fe.Data, "\npackage "+name+"\n") {
				return &verdict{"package_clause", fmt.Sprintf("%s has no `package %s` clause", ti.file, name)}
			}
		}
		for _, ev := range rr.hist {
			if ev.Proc == pid && ev.Op == "write" && (ev.Err != "" || ev.Got < ev.N) {
				return &verdict{"success_despite_failed_write", fmt.Sprintf("exit 0 although %s", ev)}
			}
		}
	}
	// 3. complete => success
	if accKnown && acc && nv == gen.NameUsable && s.FileState == "present" && s.OutPath != "" && !faultFired {
		target := path.Join(s.OutPath, name)
		if _, existed := rr.before[target]; !existed && rr.code != 0 {
			return &verdict{"failure_without_cause", fmt.Sprintf("accepted specification, usable name %q, free target %s, no fault - yet exit status %d: %s", name, target, rr.code, firstLine(rr.stderr))}
		}
	}
	return nil
}

func firstLine(s string) string {
	s = strings.TrimSpace(s)
	if i := strings.IndexByte(s, '\n'); i >= 0 {
		return s[:i]
	}
	return s
}

// foreignKeeps lists the files a foreign actor actually created (they carry Created == -1).
func foreignKeeps(kind, arg string, rr runResult) []string {
	var out []string
	for p2, ent := range rr.after {
		if ent.Created == -1 && ent.Kind == "file" && kind != "" {
			out = append(out, p2)
		}
	}
	sort.Strings(out)
	return out
}

func untouched(before, after map[string]simos.Entry, exempt []string) string {
	var paths []string
	for p := range before {
		paths = append(paths, p)
	}
	sort.Strings(paths)
	for _, p := range paths {
		skip := false
		for _, ex := range exempt {
			if p == ex || strings.HasPrefix(p, ex+"/") {
				skip = true
			}
		}
		if skip {
			continue
		}
		b := before[p]
		a, ok := after[p]
		switch {
		case !ok:
			return fmt.Sprintf("%s (%s) existed before the run and is gone", p, b.Kind)
		case a.Kind != b.Kind:
			return fmt.Sprintf("%s was a %s and is now a %s", p, b.Kind, a.Kind)
		case a.Mode != b.Mode:
			return fmt.Sprintf("%s changed mode %o -> %o", p, b.Mode, a.Mode)
		case a.Data != b.Data:
			return fmt.Sprintf("%s changed content (%d -> %d bytes)", p, len(b.Data), len(a.Data))
		case a.Target != b.Target:
			return fmt.Sprintf("%s changed link target %s -> %s", p, b.Target, a.Target)
		}
	}
	return ""
}

func scenarioKey(s scenario) string {
	fl := map[string]bool{}
	for _, f := range s.Flags {
		if strings.HasPrefix(f, "-") {
			fl[strings.SplitN(f, "=", 2)[0]] = true
		}
	}
	var fs []string
	for f := range fl {
		fs = append(fs, f)
	}
	sort.Strings(fs)
	return fmt.Sprint(s.Pre, s.OutClass, fs, s.InputClass, s.FileState, nameVerdict(s.effectiveName()), s.NameClass)
}

func (e Engine) Run(t *simrt.Tape, c simrt.Case, x *simrt.Ctx) *simrt.Result {
	res := simrt.NewResult()
	tmpls := e.templates()
	var files []string
	for _, ti := range tmpls {
		files = append(files, ti.file)
	}
	s := genScenario(t)
	acc, accKnown := false, true
	if s.FileState == "present" {
		acc, accKnown = accepted(s.InputText)
	}
	x.Tracef("scenario: emerge %q cwd=%s input=%s/%s name=%q(%s) out=%s pre=%s accepted=%v", append(s.Flags, s.FileArg), s.Cwd, s.InputClass, s.FileState, s.effectiveName(), nameVerdict(s.effectiveName()), s.OutClass, s.Pre, acc)
	x.Tracef("input text: %q", s.InputText)

	fail := func(v *verdict, rr runResult, extra string) *simrt.Result {
		for _, ev := range rr.hist {
			x.Tracef("%s", ev)
		}
		x.Tracef("stderr: %q", rr.stderr)
		res.Violation = &simrt.Violation{Class: v.class, Message: fmt.Sprintf("%s%s\n  command: emerge %q (cwd %s), input class %s, pre-state %s", v.msg, extra, append(s.Flags, s.FileArg), s.Cwd, s.InputClass, s.Pre),
			Detail: map[string]any{"scenario": s, "faults": rr.faults, "exit": rr.code, "announced": rr.announced}}
		return res
	}

	// ---- fault-free run ----
	e.reference, e.referenceName = nil, ""
	w := e.build(s, files)
	rr := runOne(w, s, nil)
	if rr.code == 0 && s.OutPath != "" {
		e.reference, e.referenceName = map[string]string{}, s.effectiveName()
		target := path.Join(s.OutPath, s.effectiveName())
		for p2, ent := range rr.after {
			if strings.HasPrefix(p2, target+"/") && ent.Kind == "file" {
				e.reference[strings.TrimPrefix(p2, target+"/")] = ent.Data
			}
		}
	}
	res.Evals++
	res.SimNs += w.Clock
	if len(rr.hist) > 4 || s.InputClass != gen.InAccepted || nameVerdict(s.effectiveName()) != gen.NameUsable {
		res.Key("scenario", scenarioKey(s))
	}
	res.Count(fmt.Sprintf("exit_%d", rr.code), 1)
	if v := e.judge(s, rr, 1, tmpls, acc, accKnown, false); v != nil {
		if id := knownFinding(x, v.class, s); id != "" {
			res.Known[id]++
			return res
		}
		return fail(v, rr, "")
	}
	// ---- real-component tier: the shipped binary on a private temporary directory built from the
	// same scenario must agree with the in-process run on the simulated OS (exit status, success
	// announcement, resulting tree and file bytes). A disagreement means the stub misrepresents the
	// real thing: harness failure (exit 2), never a verdict.
	if e.EmergeBin != "" && !e.CLIOnly && c.Index%4 == 0 {
		if diff := e.realTier(s, files, rr); diff != "" {
			panic("transparency check failed: simulated and real run disagree: " + diff + fmt.Sprintf("\n scenario: %+v", s))
		}
		res.Evals++
		res.Count("real_binary_differential_runs", 1)
	}
	if s.Help || s.Version {
		return res
	}

	// ---- name sweep: every name of the three pools through -name, on this very scenario ----
	if s.FileState == "present" && (c.Index%4 == 0 || x.Tier == "thorough") {
		var names []string
		names = append(names, gen.UnusableNames...)
		names = append(names, gen.GreyNames...)
		names = append(names, gen.UsableNames...)
		for _, nm := range names {
			sn := s
			sn.NameFlag = nm
			sn.Flags = nil
			for i := 0; i < len(s.Flags); i++ {
				if s.Flags[i] == "-name" {
					i++
					continue
				}
				if strings.HasPrefix(s.Flags[i], "-name=") {
					continue
				}
				sn.Flags = append(sn.Flags, s.Flags[i])
			}
			sn.Flags = append(sn.Flags, "-name="+nm)
			wn := e.build(sn, files)
			rn := runOne(wn, sn, nil)
			res.Evals++
			res.Key("name", nm, s.InputClass, s.OutClass, s.Pre)
			if v := e.judge(sn, rn, 1, tmpls, acc, accKnown, false); v != nil {
				if id := knownFinding(x, v.class, sn); id != "" {
					res.Known[id]++
					continue
				}
				s = sn
				return fail(v, rn, "\n  (name sweep)")
			}
		}
	}

	// ---- one fault per run: every (operation x applicable kind) site of the fault-free history ----
	type site struct {
		op    string
		n     int
		kinds []string
		bytes int
		arg   string
	}
	var sites []site
	seen := map[string]int{}
	for _, ev := range rr.hist {
		if ev.Proc != 1 {
			continue
		}
		n := seen[ev.Op]
		seen[ev.Op] = n + 1
		switch ev.Op {
		case "write":
			half := ev.N / 2
			sites = append(sites, site{op: "write", n: n, kinds: []string{"ENOSPC", "EIO"}, bytes: half})
			sites = append(sites, site{op: "write", n: n, kinds: []string{"ENOSPC"}, bytes: 0})
		case "mkdir":
			sites = append(sites, site{op: "mkdir", n: n, kinds: []string{"EACCES", "EROFS", "ENOSPC"}})
		case "openfile":
			sites = append(sites, site{op: "openfile", n: n, kinds: []string{"EACCES", "EMFILE", "ENOSPC"}})
		case "open":
			sites = append(sites, site{op: "open", n: n, kinds: []string{"EACCES"}})
		case "read":
			sites = append(sites, site{op: "read", n: n, kinds: []string{"EIO"}})
		case "stat":
			sites = append(sites, site{op: "stat", n: n, kinds: []string{"EACCES", "EIO"}})
		case "getwd":
			sites = append(sites, site{op: "getwd", n: n, kinds: []string{"ENOENT"}})
		case "lstat":
			sites = append(sites, site{op: "lstat", n: n, kinds: []string{"EACCES", "EIO"}})
		case "sync":
			sites = append(sites, site{op: "sync", n: n, kinds: []string{"EIO", "ENOSPC"}})
		case "close":
			// a write error reported late, at close (NFS, quota)
			sites = append(sites, site{op: "close", n: n, kinds: []string{"EIO", "EDQUOT"}})
		case "rename":
			sites = append(sites, site{op: "rename", n: n, kinds: []string{"EACCES", "EXDEV", "ENOSPC"}})
		case "link":
			sites = append(sites, site{op: "link", n: n, kinds: []string{"EPERM", "EXDEV"}})
		case "remove", "removeall":
			sites = append(sites, site{op: ev.Op, n: n, kinds: []string{"EACCES", "EBUSY"}})
		case "chmod", "chown", "chtimes", "truncate":
			sites = append(sites, site{op: ev.Op, n: n, kinds: []string{"EPERM"}})
		case "mkdirall":
			sites = append(sites, site{op: "mkdirall", n: n, kinds: []string{"EACCES", "EROFS", "ENOSPC"}})
		case "create", "writefile":
			sites = append(sites, site{op: ev.Op, n: n, kinds: []string{"EACCES", "EMFILE", "ENOSPC"}})
		}
	}
	// foreign-actor races: before each operation of the fault-free history
	if s.OutPath != "" && nameVerdict(s.effectiveName()) != gen.NameUnusable {
		target := path.Join(s.OutPath, s.effectiveName())
		seen2 := map[string]int{}
		for _, ev := range rr.hist {
			if ev.Proc != 1 {
				continue
			}
			n := seen2[ev.Op]
			seen2[ev.Op] = n + 1
			if ev.Op == "mkdir" || ev.Op == "openfile" || ev.Op == "stat" || ev.Op == "write" {
				sites = append(sites, site{op: ev.Op, n: n, kinds: []string{"foreign:create_target_dir"}, arg: target})
				sites = append(sites, site{op: ev.Op, n: n, kinds: []string{"foreign:remove_out_dir"}, arg: s.OutPath})
				if len(files) > 0 {
					sites = append(sites, site{op: ev.Op, n: n, kinds: []string{"foreign:create_target_file"}, arg: path.Join(target, files[(n+len(ev.Op))%len(files)])})
				}
				if ev.Op == "stat" || ev.Op == "mkdir" {
					sites = append(sites, site{op: ev.Op, n: n, kinds: []string{"foreign:replace_out_with_file"}, arg: s.OutPath})
				}
			}
		}
	}
	// quick: a tape-chosen subset; thorough: every site
	limit := 24
	if x.Tier == "thorough" {
		// every site, except for the few scenarios whose generated files are written in thousands of
		// small pieces (20 minutes for one scenario): those are sampled as well
		limit = 1200
	}
	type pick struct {
		st   site
		kind string
	}
	var picks []pick
	for _, st := range sites {
		for _, k := range st.kinds {
			picks = append(picks, pick{st, k})
		}
	}
	if len(picks) > limit {
		// two thirds of the budget for faults on operations that change the file system (where a
		// swallowed error means an incomplete package), the rest for everything else
		mutating := func(op string) bool {
			switch op {
			case "write", "mkdir", "mkdirall", "openfile", "create", "writefile", "rename", "link", "sync", "remove", "removeall", "chmod", "truncate":
				return true
			}
			return false
		}
		var a, b []pick
		for _, pk := range picks {
			if mutating(pk.st.op) && !strings.HasPrefix(pk.kind, "foreign:") {
				a = append(a, pk)
			} else {
				b = append(b, pk)
			}
		}
		sample := func(xs []pick, n int) []pick {
			if len(xs) <= n {
				return xs
			}
			for i := 0; i < n; i++ {
				j := i + t.Draw(len(xs)-i)
				xs[i], xs[j] = xs[j], xs[i]
			}
			return xs[:n]
		}
		na := limit * 2 / 3
		if len(b) < limit-na {
			na = limit - len(b)
		}
		a = sample(a, na)
		picks = append(a, sample(b, limit-len(a))...)
	}
	for _, pk := range picks {
		w := e.build(s, files)
		f := &simos.Fault{Op: pk.st.op, N: pk.st.n, Kind: pk.kind, Bytes: pk.st.bytes, Arg: pk.st.arg}
		fr := runOne(w, s, []*simos.Fault{f})
		res.Evals++
		res.SimNs += w.Clock
		if !f.Fired {
			res.Count("fault_not_reached", 1)
			continue
		}
		cname := "fault_" + pk.st.op + "_" + pk.kind
		if strings.HasPrefix(pk.kind, "foreign:") {
			cname = "foreign_" + strings.TrimPrefix(pk.kind, "foreign:")
		}
		res.Count(cname, 1)
		res.Key("fault", pk.st.op, pk.st.n, pk.kind, pk.st.bytes > 0)
		// a foreign actor changes the world on purpose: paths it touched are exempt from clause 1,
		// everything else is not. The "before" picture for clause 1 is taken with the foreign
		// change applied.
		var foreign []string
		if strings.HasPrefix(pk.kind, "foreign:") {
			foreign = []string{pk.kind, pk.st.arg}
		}
		if v := e.judge(s, fr, 1, tmpls, acc, accKnown, true, foreign...); v != nil {
			if id := knownFinding(x, v.class, s); id != "" {
				res.Known[id]++
				continue
			}
			return fail(v, fr, fmt.Sprintf("\n  injected: %s #%d %s (bytes=%d arg=%s)", pk.st.op, pk.st.n, pk.kind, pk.st.bytes, pk.st.arg))
		}
	}

	// ---- a second emerge instance racing for the same output location ----
	nInter := 3
	if x.Tier == "thorough" {
		nInter = 10
	}
	if s.FileState == "present" && s.OutPath != "" && os.Getenv("VERIF_CODE_SPAWNS_GOROUTINES") != "" {
		res.Count("two_instance_skipped_code_spawns_goroutines", 1)
	} else if s.FileState == "present" && s.OutPath != "" {
		for i := 0; i < nInter; i++ {
			if v, rr2, note := e.twoInstances(t, s, files, tmpls, acc, accKnown, res); v != nil {
				if id := knownFinding(x, v.class, s); id != "" {
					res.Known[id]++
					continue
				}
				return fail(v, rr2, "\n  "+note)
			}
		}
	}
	if c.Index%9 == 0 {
		res.Sample = map[string]any{"scenario": s, "accepted": acc, "fault_free_exit": rr.code, "fault_free_ops": len(rr.hist), "fault_sites": len(picks)}
	}
	return res
}

// knownFinding maps a violation class to a listed known finding (signature = class[:detail]).
func knownFinding(x *simrt.Ctx, class string, s scenario) string {
	for _, k := range x.Known {
		if k.Status != "known" || k.Signature == "" {
			continue
		}
		parts := strings.SplitN(k.Signature, "|", 2)
		if parts[0] != class && !(strings.Contains(class, "cli_panic@") && strings.Contains(class, k.Signature)) {
			continue
		}
		if len(parts) == 2 && parts[1] != "name="+s.effectiveName() {
			continue
		}
		return k.ID
	}
	return ""
}

// ---- two instances ------------------------------------------------------------------------------

// twoInstances runs the scenario's command and a second emerge aimed at the same parent directory
// (same or different package name) as two simulated processes; the tape decides which one runs
// at every file-system operation.
func (e Engine) twoInstances(t *simrt.Tape, s scenario, files []string, tmpls []tmplInfo, acc, accKnown bool, res *simrt.Result) (*verdict, runResult, string) {
	s2 := s
	same := t.Chance(2, 3)
	if !same {
		s2.NameFlag = "second_pkg"
		s2.NameClass = gen.NameUsable
		// rebuild flags: drop any -name, add ours
		var fl []string
		for i := 0; i < len(s.Flags); i++ {
			if s.Flags[i] == "-name" {
				i++
				continue
			}
			if strings.HasPrefix(s.Flags[i], "-name=") {
				continue
			}
			fl = append(fl, s.Flags[i])
		}
		s2.Flags = append(fl, "-name", "second_pkg")
	}
	policy := t.Draw(3) // 0 random, 1 mostly-stay (few switches), 2 strict alternation
	simui.Reset()
	w := e.build(s, files)
	p1 := w.NewProc(append(append([]string{"emerge"}, s.Flags...), s.FileArg), s.Cwd)
	p2 := w.NewProc(append(append([]string{"emerge"}, s2.Flags...), s2.FileArg), s2.Cwd)
	procs := []*simos.Proc{nil, p1, p2}
	resume := []chan struct{}{nil, make(chan struct{}), make(chan struct{})}
	parked := make(chan int)
	type fin struct {
		code    int
		crashed any
		stack   string
	}
	results := make([]fin, 3)
	before := w.Snapshot()
	w.Yield = func(p *simos.Proc) {
		parked <- p.ID
		<-resume[p.ID]
		w.Switch(p)
	}
	for id := 1; id <= 2; id++ {
		go func(id int) {
			<-resume[id]
			w.Switch(procs[id])
			c, cr, st := w.RunMain(procs[id], emergecli.VerifMain)
			results[id] = fin{c, cr, st}
			parked <- -id
		}(id)
	}
	alive := map[int]bool{1: true, 2: true}
	cur := 1 + t.Draw(2)
	var order []byte
	steps := 0
	so, se := os.Stdout, os.Stderr
	if devnull == nil {
		devnull, _ = os.OpenFile(os.DevNull, os.O_WRONLY, 0)
	}
	os.Stdout, os.Stderr = devnull, devnull
	defer func() { os.Stdout, os.Stderr = so, se }()
	for len(alive) > 0 {
		if !alive[cur] {
			cur = 3 - cur
		}
		order = append(order, byte('0'+cur))
		resume[cur] <- struct{}{}
		got := <-parked
		steps++
		if got < 0 {
			delete(alive, -got)
		}
		if len(alive) == 2 {
			switch policy {
			case 0:
				cur = 1 + t.Draw(2)
			case 1:
				if t.Chance(1, 8) {
					cur = 3 - cur
				}
			case 2:
				cur = 3 - cur
			}
		}
		if steps > 100000 {
			panic("two-instance schedule does not terminate")
		}
	}
	w.Yield = nil
	after := w.Snapshot()
	res.Evals++
	res.SimNs += w.Clock
	res.Count("second_instance", 1)
	res.Key("interleaving", string(order), same)
	note := fmt.Sprintf("two instances, same target=%v, policy=%d, schedule=%s; second command: emerge %q", same, policy, string(order), append(s2.Flags, s2.FileArg))

	mk := func(id int) runResult {
		rr := runResult{code: results[id].code, crashed: results[id].crashed, stack: results[id].stack, before: before, after: after, hist: w.Hist}
		rr.announced = announcedSuccess(id)
		for _, m := range simui.Log {
			if m.Proc == id && m.Method == "Errorf" && m.Shown {
				rr.errMsgs++
			}
		}
		rr.stdout, rr.stderr = string(procs[id].Out.Buf), string(procs[id].Err.Buf)
		return rr
	}
	r1, r2 := mk(1), mk(2)
	// clauses 1, 2, 4, 5 and exit/announcement coupling for each instance; clause 3 only when the
	// instances do not contend for the same package directory
	if v := e.judge(s, r1, 1, tmpls, acc, accKnown, same); v != nil {
		v.class = "two:" + v.class
		return v, r1, note + " [first instance]"
	}
	if v := e.judge(s2, r2, 2, tmpls, acc, accKnown, same); v != nil {
		v.class = "two:" + v.class
		return v, r2, note + " [second instance]"
	}
	if same && r1.code == 0 && r2.code == 0 {
		return &verdict{"two:both_succeed", "both instances exited 0 for the same package directory"}, r1, note
	}
	// the loser must not have mutated anything the winner created
	for loser, winner := range map[int]int{1: 2, 2: 1} {
		rl := []runResult{{}, r1, r2}[loser]
		rw := []runResult{{}, r1, r2}[winner]
		if !(same && rw.code == 0 && rl.code != 0) {
			continue
		}
		for _, ev := range w.Hist {
			if ev.Proc != loser || !ev.Mutating() || ev.Err != "" {
				continue
			}
			ap := ev.Path
			if !strings.HasPrefix(ap, "/") {
				ap = path.Join(s.Cwd, ap)
			}
			if ent, ok := after[path.Clean(ap)]; ok && ent.Created == winner {
				return &verdict{"two:loser_mutated_winner", fmt.Sprintf("the failing instance %d performed %s on a path created by the succeeding instance", loser, ev)}, rl, note
			}
		}
	}
	return nil, r1, note
}

// ---- real-component tier ----------------------------------------------------------------------

func (e Engine) realTier(s scenario, files []string, sim runResult) string {
	for _, a := range append(append([]string{}, s.Flags...), s.FileArg) {
		if strings.ContainsRune(a, 0) {
			return "" // cannot be passed to a real process
		}
	}
	root, err := os.MkdirTemp("", "c16real-")
	if err != nil {
		panic(err)
	}
	defer func() {
		filepath.Walk(root, func(p string, info os.FileInfo, err error) error {
			if err == nil && info.IsDir() {
				os.Chmod(p, 0o755)
			}
			return nil
		})
		os.RemoveAll(root)
	}()
	w := e.build(s, files)
	snap := w.Snapshot()
	var paths []string
	for p2 := range snap {
		paths = append(paths, p2)
	}
	sort.Strings(paths)
	for _, p2 := range paths {
		ent := snap[p2]
		rp := filepath.Join(root, p2)
		switch ent.Kind {
		case "dir":
			os.MkdirAll(rp, 0o755)
		case "file":
			os.MkdirAll(filepath.Dir(rp), 0o755)
			os.WriteFile(rp, []byte(ent.Data), 0o644)
		case "symlink":
			t := ent.Target
			if strings.HasPrefix(t, "/") {
				t = filepath.Join(root, t)
			}
			os.Symlink(t, rp)
		}
	}
	mapArg := func(a string) string {
		if strings.HasPrefix(a, "/") {
			return filepath.Join(root, a)
		}
		if strings.HasPrefix(a, "-out=/") {
			return "-out=" + filepath.Join(root, strings.TrimPrefix(a, "-out="))
		}
		return a
	}
	var args []string
	for i, a := range s.Flags {
		if i > 0 && s.Flags[i-1] == "-name" {
			args = append(args, a) // a name is never a path to remap
			continue
		}
		args = append(args, mapArg(a))
	}
	args = append(args, mapArg(s.FileArg))
	cmd := exec.Command(e.EmergeBin, args...)
	cmd.Dir = filepath.Join(root, s.Cwd)
	var so, se strings.Builder
	cmd.Stdout, cmd.Stderr = &so, &se
	code := 0
	if err := cmd.Run(); err != nil {
		if ee, ok := err.(*exec.ExitError); ok {
			code = ee.ExitCode()
		} else {
			panic(err)
		}
	}
	if code != sim.code {
		return fmt.Sprintf("exit status: real %d, simulated %d (real stderr: %s)", code, sim.code, firstLine(se.String()))
	}
	announced := saysSuccess(so.String())
	if announced != sim.announced {
		return fmt.Sprintf("success announced: real %v, simulated %v", announced, sim.announced)
	}
	real := map[string]simos.Entry{}
	filepath.Walk(root, func(p2 string, info os.FileInfo, err error) error {
		if err != nil {
			return nil
		}
		rel := "/" + strings.TrimPrefix(strings.TrimPrefix(p2, root), "/")
		switch {
		case info.Mode()&os.ModeSymlink != 0:
			t, _ := os.Readlink(p2)
			real[rel] = simos.Entry{Kind: "symlink", Target: strings.TrimPrefix(t, root)}
		case info.IsDir():
			real[rel] = simos.Entry{Kind: "dir"}
		default:
			b, _ := os.ReadFile(p2)
			real[rel] = simos.Entry{Kind: "file", Data: string(b)}
		}
		return nil
	})
	for p2, ent := range sim.after {
		r, ok := real[p2]
		if !ok {
			return fmt.Sprintf("%s exists after the simulated run but not after the real one", p2)
		}
		if r.Kind != ent.Kind || r.Data != ent.Data || (ent.Kind == "symlink" && r.Target != ent.Target) {
			return fmt.Sprintf("%s differs: real %s/%d bytes, simulated %s/%d bytes", p2, r.Kind, len(r.Data), ent.Kind, len(ent.Data))
		}
	}
	for p2 := range real {
		if _, ok := sim.after[p2]; !ok {
			return fmt.Sprintf("%s exists after the real run but not after the simulated one", p2)
		}
	}
	return ""
}
