// Package c18 decides property C18: parse callbacks fire in derivation order with the right
// values, and an error returned by any callback at any step aborts the parse and is returned.
// The simulator owns the callbacks (an existing seam), records the history and injects the
// failure at a chosen step; the history is checked against the stack replayer R-deriv.
package c18

import (
	"errors"
	"fmt"
	"io"
	"os"
	"path/filepath"
	"sort"
	"strings"
	"time"

	"github.com/moorara/algo/grammar"
	"github.com/moorara/algo/lexer"
	algoparser "github.com/moorara/algo/parser"
	"github.com/moorara/algo/parser/lr"

	ebnflexer "github.com/gardenbed/emerge/internal/ebnf/lexer"
	"github.com/gardenbed/emerge/internal/ebnf/parser"
	"github.com/gardenbed/emerge/zz_verif/gen"
	"github.com/gardenbed/emerge/zz_verif/simrt"
	simctl "github.com/moorara/algo/zz_simctl"
)

type Engine struct{ FixtureDir string }

func (Engine) ID() string { return "C18" }

func (Engine) Meta() simrt.Meta {
	return simrt.Meta{
		Level: "fault_enumeration",
		Rule: "a case = one generated valid specification (or shipped fixture) in one layout; evaluations = fault-free runs of Parse/ParseAndEvaluate/ParseAndBuildAST plus one run per injected callback failure (entry point x failing step); " +
			"distinct_nontrivial counts distinct (entry point, kind of failing callback, production index or token kind at the failing step, history length class) tuples plus distinct fault-free reduction sequences; a case is non-trivial iff its history has >= 8 events",
		Assumptions: []string{
			"Go toolchain; the harness' stack replayer R-deriv (pop |body|, compare symbols, push head) and the layout engine's own positions are correct",
			"production list and grammar are read from the working tree through an export overlay file and cross-checked against parser.G, not mirrored",
			"small inputs stay below one buffer half; large inputs (several refills, > 1024 tokens) use a leading padding for which the input-computable signature of the dependency's double-reload defect (C13 known finding) does not hold; all end in a newline - so reader defects cannot leak into this verdict",
		},
		RealCode:    []string{"internal/ebnf/lexer", "internal/ebnf/parser (driver + embedded tables)", "moorara/algo lexer/input, list, parser/lr"},
		Stubs:       []string{"token/production/evaluate callbacks (simulator-owned, failure injected at a chosen step)", "io.Reader (SimReader, full mode)"},
		FaultKinds:  []string{"fault_tokenF_error", "fault_prodF_error", "fault_eval_error", "reentrant_parse_in_callback"},
		CaseTimeout: 600 * time.Second,
	}
}

var fixtures = []string{"ebnf.grammar", "pascal.grammar", "please.grammar", "test.success.grammar"}

func (e Engine) Plan(tier string, seed uint64) []simrt.Case {
	n := 60
	if tier == "thorough" {
		n = 1500
	}
	var cs []simrt.Case
	for i := 0; i < n; i++ {
		cs = append(cs, simrt.Case{Index: i, Seed: simrt.Mix(seed, 18, uint64(i)), Args: []int{-1}})
	}
	for f := range fixtures {
		cs = append(cs, simrt.Case{Index: len(cs), Seed: simrt.Mix(seed, 1800, uint64(f)), Args: []int{f}, Label: fixtures[f]})
	}
	// large specifications: well over 1024 significant tokens, several buffer refills
	nLarge := 6
	if tier == "thorough" {
		nLarge = 40
	}
	for i := 0; i < nLarge; i++ {
		cs = append(cs, simrt.Case{Index: len(cs), Seed: simrt.Mix(seed, 18000, uint64(i)), Args: []int{-2}, Label: "large"})
	}
	// deeply nested right-hand sides: the stacks of the driver grow with the nesting depth
	for i := 0; i < nLarge; i++ {
		cs = append(cs, simrt.Case{Index: len(cs), Seed: simrt.Mix(seed, 18001, uint64(i)), Args: []int{-3}, Label: "deep"})
	}
	return cs
}

type event struct {
	isTok bool
	term  grammar.Terminal
	lex   string
	pos   lexer.Position
	prod  int
}

func (e event) String() string {
	if e.isTok {
		return fmt.Sprintf("tok(%s %q @%d:%d)", e.term, e.lex, e.pos.Line, e.pos.Column)
	}
	return fmt.Sprintf("prod(%d)", e.prod)
}

type sentinel struct{ id int }

func (s *sentinel) Error() string { return fmt.Sprintf("verif-sentinel-%d", s.id) }

// multiErr carries the sentinel next to another error in one chain (errors.Is finds both).
type multiErr struct{ errs []error }

func (m *multiErr) Error() string   { return fmt.Sprintf("%v (and %d more)", m.errs[0], len(m.errs)-1) }
func (m *multiErr) Unwrap() []error { return m.errs }

// shaped returns the error a failing callback hands back: the sentinel itself, or the sentinel
// wrapped / joined the way real callbacks do (context added with %w, a nested parse failure in
// the same chain, io.EOF in the chain). Whatever the shape, the caller must be able to get the
// sentinel back with errors.Is.
func shaped(sent *sentinel, shape int) error {
	switch shape % 5 {
	case 1:
		return fmt.Errorf("while handling the callback: %w", sent)
	case 2:
		return &multiErr{[]error{sent, &algoparser.ParseError{Description: "nested parse failed", Cause: errors.New("inner cause")}}}
	case 3:
		return fmt.Errorf("%w: %w", sent, &algoparser.ParseError{Description: "inner", Cause: io.EOF})
	case 4:
		return errors.Join(io.EOF, sent)
	}
	return sent
}

// expected lexeme of a token as documented: quotes / slashes stripped, fixed text otherwise.
func expectedLexeme(t gen.Tok) string {
	switch t.Kind {
	case "STRING", "REGEX":
		return t.Text[1 : len(t.Text)-1]
	}
	return t.Text
}

// lexemeOK: the statement fixes the token, not how quotes and slashes are stripped from STRING
// and REGEX lexemes (the scanner over-trims a pattern ending in an escaped slash - a matter of
// another property); for those two kinds the lexeme only has to come out of the token's text.
func lexemeOK(t gen.Tok, lexeme string) bool {
	switch t.Kind {
	case "STRING", "REGEX":
		return lexeme != "" && strings.Contains(t.Text, lexeme) && len(lexeme) >= len(t.Text)-4
	}
	return lexeme == expectedLexeme(t)
}

type symVal struct {
	sym grammar.Symbol
	id  int             // value identity handed back by eval (nonterminals) / -1
	lex string          // lexeme (terminals)
	pos *lexer.Position // expected position (nil for empty-body heads)
}

func (e Engine) Run(t *simrt.Tape, c simrt.Case, x *simrt.Ctx) *simrt.Result {
	res := simrt.NewResult()
	simctl.Begin(simctl.Sorted, c.Seed) // the dependency's clock-seeded PRNGs follow the case seed: exact replay
	prods := parser.VerifProductions()

	// cross-check the exported production list against the exported grammar (set equality)
	{
		var a, b []string
		for _, p := range prods {
			a = append(a, p.String())
		}
		for p := range parser.G.Productions.All() {
			b = append(b, p.String())
		}
		sort.Strings(a)
		sort.Strings(b)
		if strings.Join(a, "\n") != strings.Join(b, "\n") {
			return res.Fail("harness:productions", "exported production list and parser.G disagree")
		}
	}

	var text []byte
	paddedCase := false
	var want []gen.Tok
	var wantPos []gen.Pos
	if c.Args[0] >= 0 {
		b, err := os.ReadFile(filepath.Join(e.FixtureDir, fixtures[c.Args[0]]))
		if err != nil {
			panic(err)
		}
		text = b
		lex, bad := gen.Tokenize(text)
		if bad >= 0 {
			panic(fmt.Sprintf("independent tokenizer stuck in fixture %s at %d", fixtures[c.Args[0]], bad))
		}
		line, col, off := 1, 1, 0
		for _, l := range lex {
			for off < l.Start {
				if text[off] == '\n' {
					line, col = line+1, 1
				} else {
					col++
				}
				off++
			}
			if !gen.IsSeparator(l.Kind) {
				want = append(want, gen.Tok{Kind: l.Kind, Text: string(text[l.Start : l.Start+l.Len])})
				wantPos = append(wantPos, gen.Pos{Offset: off, Line: line, Column: col})
			}
		}
	} else {
		var s *gen.Spec
		padded := false
		// optional semicolons are dropped in a third of the layouts and the text ends with or without a
		// newline, in blanks or in a comment: the end marker then follows a directive, a rule body or
		// a token definition directly
		st := gen.Style{SepSeed: uint64(t.Draw(1 << 30)), FinalNL: t.Draw(4), Tight: t.Chance(1, 4), DropSemis: t.Chance(1, 3)}
		if c.Args[0] == -2 {
			s = gen.GenLargeSpec(t, 150+t.Draw(200))
			if s == nil {
				panic("large specification is not tokenizable (generator bug)")
			}
		} else if c.Args[0] == -3 {
			s = gen.GenDeepSpec(t, []int{40, 70, 130, 260, 520, 1100}[t.Draw(6)]+t.Draw(9))
			if s == nil {
				panic("deep specification is not tokenizable (generator bug)")
			}
			res.Count("deeply_nested_specifications", 1)
		} else {
			s = gen.GenSpec(t, gen.GenOpts{})
			// every fourth of them with a long stretch of insignificant text (blanks, newlines, one or
			// many comments: more than the reader's buffer holds) in front of a token somewhere inside
			if t.Chance(1, 4) {
				padded, paddedCase = true, true
				st.PadKind = t.Draw(5)
				st.MidGap = 1 + t.Draw(len(s.Toks))
				st.MidPad = ebnflexer.VerifBufferSize - 200 + t.Draw(2*ebnflexer.VerifBufferSize)
				res.Count("specifications_with_long_insignificant_stretch", 1)
			}
		}
		lay := gen.Render(s, st)
		if err := lay.Check(s); err != nil {
			panic("layout self-check: " + err.Error())
		}
		if c.Args[0] == -2 || c.Args[0] == -3 || padded {
			// Multi-buffer input: choose a leading padding for which no lexeme other than the first
			// starts at k*B-1, the input-computable signature of the dependency's double-reload
			// defect (C13's known finding), so that reader defects cannot leak into this verdict.
			B := ebnflexer.VerifBufferSize
			ok := false
			for pad := 0; pad < 64 && !ok; pad++ {
				st.LeadPad = pad
				lay = gen.Render(s, st)
				if err := lay.Check(s); err != nil {
					panic("layout self-check: " + err.Error())
				}
				ok = true
				for _, l := range lay.Lexemes[1:] {
					if (l.Start+1)%B == 0 {
						ok = false
						break
					}
				}
			}
			if !ok {
				res.Skipped++
				return res
			}
		}
		text = lay.Text
		for _, idx := range lay.Kept {
			want = append(want, s.Toks[idx])
			wantPos = append(wantPos, lay.TokPos[idx])
		}
	}
	if len(text) >= 4000 && c.Args[0] == -1 && !paddedCase {
		res.Skipped++
		return res
	}
	x.Tracef("input (%d bytes): %q", len(text), string(text))

	newParser := func() *parser.Parser {
		p, err := parser.New("f", simrt.NewSimReader(text, simrt.FullPlan()))
		if err != nil {
			panic(err)
		}
		return p
	}

	// ---- fault-free Parse ----------------------------------------------------------------
	var hist []event
	err := func() (err error) {
		defer func() {
			if r := recover(); r != nil {
				err = fmt.Errorf("PANIC: %v", r)
			}
		}()
		return newParser().Parse(
			func(tk *lexer.Token) error {
				hist = append(hist, event{isTok: true, term: tk.Terminal, lex: tk.Lexeme, pos: tk.Pos})
				return nil
			},
			func(i int) error { hist = append(hist, event{prod: i}); return nil },
		)
	}()
	res.Evals++
	if err != nil {
		// The fixtures may need the reader to work across a buffer boundary (please.grammar is
		// larger than one half): such inputs belong to C13 and are skipped here.
		if c.Args[0] >= 0 && len(text) >= 4000 {
			res.Skipped++
			return res
		}
		return res.Fail("faultfree:parse_error", "valid specification rejected by Parse: %v", err)
	}
	// token events == significant tokens in source order
	ti := 0
	var stack []grammar.Symbol
	for k, ev := range hist {
		if ev.isTok {
			if ti >= len(want) {
				return res.Fail("faultfree:extra_token", "event %d: token callback %s beyond the %d significant tokens", k, ev, len(want))
			}
			w := want[ti]
			if string(ev.term) != w.Kind || !lexemeOK(w, ev.lex) {
				return res.Fail("faultfree:token_mismatch", "event %d: token callback got %s, source token #%d is %s %q", k, ev, ti, w.Kind, w.Text)
			}
			if ev.pos.Offset != wantPos[ti].Offset || ev.pos.Line != wantPos[ti].Line || ev.pos.Column != wantPos[ti].Column {
				return res.Fail("faultfree:token_position", "event %d: token %s reported at %d/%d:%d, source has it at %d/%d:%d", k, ev, ev.pos.Offset, ev.pos.Line, ev.pos.Column, wantPos[ti].Offset, wantPos[ti].Line, wantPos[ti].Column)
			}
			ti++
			stack = append(stack, ev.term)
			continue
		}
		if ev.prod < 0 || ev.prod >= len(prods) {
			return res.Fail("faultfree:prod_index", "event %d: production index %d out of range", k, ev.prod)
		}
		p := prods[ev.prod]
		n := len(p.Body)
		if n > len(stack) {
			return res.Fail("faultfree:derivation", "event %d: reduction by %s needs %d symbols, stack has %d", k, p, n, len(stack))
		}
		for j := 0; j < n; j++ {
			if !stack[len(stack)-n+j].Equal(p.Body[j]) {
				return res.Fail("faultfree:derivation", "event %d: reduction by %s does not match the stack top %v: not a rightmost derivation in reverse", k, p, stack[len(stack)-n:])
			}
		}
		stack = append(stack[:len(stack)-n], p.Head)
	}
	if ti != len(want) {
		return res.Fail("faultfree:missing_token", "token callback fired %d times for %d significant tokens", ti, len(want))
	}
	if len(stack) != 1 || !stack[0].Equal(parser.G.Start) {
		return res.Fail("faultfree:derivation", "history does not reduce to the start symbol: %v", stack)
	}
	var seq strings.Builder
	for _, ev := range hist {
		if !ev.isTok {
			fmt.Fprintf(&seq, "%d,", ev.prod)
		}
	}
	if len(hist) >= 8 {
		res.Key("seq", seq.String())
	}
	res.Count("history_events", len(hist))

	// ---- fault-free ParseAndEvaluate -----------------------------------------------------
	type evalCall struct {
		prod int
		rhs  []*lr.Value
	}
	nextID := 0
	type boxed struct{ id int }
	runEval := func(failAt int, sent error) (calls []evalCall, ids []*boxed, root *lr.Value, err error) {
		defer func() {
			if r := recover(); r != nil {
				err = fmt.Errorf("PANIC: %v", r)
			}
		}()
		root, err = newParser().ParseAndEvaluate(func(i int, rhs []*lr.Value) (any, error) {
			calls = append(calls, evalCall{i, rhs})
			if len(calls)-1 == failAt {
				return nil, sent
			}
			nextID++
			b := &boxed{nextID}
			ids = append(ids, b)
			return b, nil
		})
		return
	}
	calls, ids, root, err := runEval(-1, nil)
	res.Evals++
	if err != nil || root == nil {
		return res.Fail("eval:error", "ParseAndEvaluate failed on a valid specification: root=%v err=%v", root, err)
	}
	{
		// reference value stack
		var vs []symVal
		ti, ci := 0, 0
		for k, ev := range hist {
			if ev.isTok {
				p := lexer.Position{Filename: "f", Offset: wantPos[ti].Offset, Line: wantPos[ti].Line, Column: wantPos[ti].Column}
				vs = append(vs, symVal{sym: ev.term, id: -1, lex: ev.lex, pos: &p})
				ti++
				continue
			}
			if ci >= len(calls) {
				return res.Fail("eval:missing_call", "evaluate callback fired %d times for %d reductions", len(calls), len(hist)-len(want))
			}
			call := calls[ci]
			p := prods[ev.prod]
			if call.prod != ev.prod {
				return res.Fail("eval:order", "evaluate call %d is for production %d, Parse reduced by %d at event %d", ci, call.prod, ev.prod, k)
			}
			n := len(p.Body)
			if len(call.rhs) != n {
				return res.Fail("eval:arity", "evaluate call %d (production %s) received %d values, body has %d symbols", ci, p, len(call.rhs), n)
			}
			for j := 0; j < n; j++ {
				w := vs[len(vs)-n+j]
				g := call.rhs[j]
				if g == nil {
					return res.Fail("eval:value", "evaluate call %d (production %s): value %d is nil", ci, p, j)
				}
				if w.id < 0 {
					if s, ok := g.Val.(string); !ok || s != w.lex {
						return res.Fail("eval:value", "evaluate call %d (production %s): value %d is %v, expected the lexeme %q", ci, p, j, g.Val, w.lex)
					}
				} else {
					if b, ok := g.Val.(*boxed); !ok || b.id != w.id {
						return res.Fail("eval:value", "evaluate call %d (production %s): value %d is not the value returned for body symbol %s", ci, p, j, w.sym)
					}
				}
				if !samePos(g.Pos, w.pos) {
					return res.Fail("eval:position", "evaluate call %d (production %s): value %d carries position %v, expected %v", ci, p, j, g.Pos, w.pos)
				}
			}
			var hp *lexer.Position
			if n > 0 {
				hp = vs[len(vs)-n].pos
			}
			vs = append(vs[:len(vs)-n], symVal{sym: p.Head, id: ids[ci].id, pos: hp})
			ci++
		}
		if ci != len(calls) {
			return res.Fail("eval:extra_call", "evaluate callback fired %d times for %d reductions", len(calls), ci)
		}
		top := vs[0]
		if b, ok := root.Val.(*boxed); !ok || b.id != top.id {
			return res.Fail("eval:root", "ParseAndEvaluate returned %v, expected the value of the last reduction", root.Val)
		}
		if !samePos(root.Pos, top.pos) {
			return res.Fail("eval:root_position", "root position %v, expected %v", root.Pos, top.pos)
		}
	}

	// ---- fault-free ParseAndBuildAST -----------------------------------------------------
	{
		var node algoparser.Node
		err := func() (err error) {
			defer func() {
				if r := recover(); r != nil {
					err = fmt.Errorf("PANIC: %v", r)
				}
			}()
			node, err = newParser().ParseAndBuildAST()
			return err
		}()
		res.Evals++
		if err != nil || node == nil {
			return res.Fail("ast:error", "ParseAndBuildAST failed on a valid specification: %v", err)
		}
		li, internals := 0, 0
		var walk func(n algoparser.Node) *simrt.Result
		walk = func(n algoparser.Node) *simrt.Result {
			switch v := n.(type) {
			case *algoparser.LeafNode:
				if li >= len(want) || string(v.Terminal) != want[li].Kind || !lexemeOK(want[li], v.Lexeme) || v.Position.Offset != wantPos[li].Offset {
					return res.Fail("ast:leaf", "leaf %d of the tree is %s %q @%d, token sequence disagrees", li, v.Terminal, v.Lexeme, v.Position.Offset)
				}
				li++
			case *algoparser.InternalNode:
				internals++
				if v.Production == nil || !v.Production.Head.Equal(v.NonTerminal) || len(v.Production.Body) != len(v.Children) {
					return res.Fail("ast:node", "internal node %s has %d children for production %v", v.NonTerminal, len(v.Children), v.Production)
				}
				for j, ch := range v.Children {
					var sym grammar.Symbol
					switch cv := ch.(type) {
					case *algoparser.LeafNode:
						sym = cv.Terminal
					case *algoparser.InternalNode:
						sym = cv.NonTerminal
					}
					if sym == nil || !sym.Equal(v.Production.Body[j]) {
						return res.Fail("ast:node", "child %d of %s is %v, production body says %s", j, v.Production, sym, v.Production.Body[j])
					}
					if r := walk(ch); r != nil {
						return r
					}
				}
			default:
				return res.Fail("ast:node", "unexpected node type %T", n)
			}
			return nil
		}
		if r := walk(node); r != nil {
			return r
		}
		if in, ok := node.(*algoparser.InternalNode); !ok || !in.NonTerminal.Equal(parser.G.Start) {
			return res.Fail("ast:root", "root of the tree is not the start symbol")
		}
		if li != len(want) || internals != len(hist)-len(want) {
			return res.Fail("ast:shape", "tree has %d leaves / %d internal nodes; expected %d / %d", li, internals, len(want), len(hist)-len(want))
		}
	}

	// ---- re-entrant use: a callback of one parse runs another complete parse -------------------
	// (the callbacks are simulator-owned, so the simulator decides when the second party acts:
	// inside a token callback or inside a production callback of the first)
	{
		inner := []byte("grammar inner;\nNUM = /[0-9]+/;\nstart = ( NUM \"+\" ) start | [ NUM ] ;\n")
		var innerRef []event
		runInner := func() ([]event, error) {
			var h []event
			p, err := parser.New("inner", simrt.NewSimReader(inner, simrt.FullPlan()))
			if err != nil {
				return nil, err
			}
			err = p.Parse(
				func(tk *lexer.Token) error {
					h = append(h, event{isTok: true, term: tk.Terminal, lex: tk.Lexeme, pos: tk.Pos})
					return nil
				},
				func(i int) error { h = append(h, event{prod: i}); return nil },
			)
			return h, err
		}
		var err error
		if innerRef, err = runInner(); err != nil {
			panic(fmt.Sprintf("inner reference parse failed: %v", err))
		}
		nNest := 6
		if len(hist) < nNest {
			nNest = len(hist)
		}
		for n := 0; n < nNest; n++ {
			k := t.Draw(len(hist))
			var got []event
			var innerGot []event
			var innerErr error
			nest := func() {
				if len(got)-1 == k {
					innerGot, innerErr = runInner()
				}
			}
			err := func() (err error) {
				defer func() {
					if r := recover(); r != nil {
						err = fmt.Errorf("PANIC: %v", r)
					}
				}()
				return newParser().Parse(
					func(tk *lexer.Token) error {
						got = append(got, event{isTok: true, term: tk.Terminal, lex: tk.Lexeme, pos: tk.Pos})
						nest()
						return nil
					},
					func(i int) error {
						got = append(got, event{prod: i})
						nest()
						return nil
					},
				)
			}()
			res.Evals++
			res.Count("reentrant_parse_in_callback", 1)
			kindK := "prodF"
			if hist[k].isTok {
				kindK = "tokenF"
			}
			res.Key("reentrant", kindK, lenClass(len(hist)))
			if err != nil {
				return res.Fail("reentrant:outer_error", "a complete parse of another specification inside the %s callback at step %d makes the outer parse fail: %v", kindK, k, err)
			}
			if innerErr != nil || len(innerGot) != len(innerRef) {
				return res.Fail("reentrant:inner_differs", "the parse run inside the %s callback at step %d of another parse differs from the same parse run alone (err=%v, %d vs %d events)", kindK, k, innerErr, len(innerGot), len(innerRef))
			}
			for j := range innerRef {
				if innerGot[j] != innerRef[j] {
					return res.Fail("reentrant:inner_differs", "the parse run inside a callback differs from the same parse run alone at event %d: %s vs %s", j, innerGot[j], innerRef[j])
				}
			}
			if len(got) != len(hist) {
				return res.Fail("reentrant:outer_differs", "after a nested parse in the %s callback at step %d the outer parse made %d callbacks instead of %d", kindK, k, len(got), len(hist))
			}
			for j := range hist {
				if got[j] != hist[j] {
					return res.Fail("reentrant:outer_differs", "after a nested parse in the %s callback at step %d the outer history differs at event %d: %s vs %s", kindK, k, j, got[j], hist[j])
				}
			}
		}
	}

	// ---- injected callback failures -------------------------------------------------------
	steps := make([]int, 0, len(hist))
	every := (x.Tier == "thorough" && len(hist) <= 600) || len(hist) <= 60
	if every {
		for k := range hist {
			steps = append(steps, k)
		}
	} else {
		seen := map[int]bool{}
		want := 30
		if x.Tier == "thorough" {
			want = 200
		}
		for len(steps) < want {
			k := t.Draw(len(hist))
			if !seen[k] {
				seen[k] = true
				steps = append(steps, k)
			}
		}
	}
	sentID := 0
	for _, k := range steps {
		sentID++
		sent := &sentinel{id: sentID*1000 + k}
		var got []event
		after := 0
		failed := false
		err := func() (err error) {
			defer func() {
				if r := recover(); r != nil {
					err = fmt.Errorf("PANIC: %v", r)
				}
			}()
			return newParser().Parse(
				func(tk *lexer.Token) error {
					if failed {
						after++
					}
					got = append(got, event{isTok: true, term: tk.Terminal, lex: tk.Lexeme, pos: tk.Pos})
					if len(got)-1 == k {
						failed = true
						return shaped(sent, sentID)
					}
					return nil
				},
				func(i int) error {
					if failed {
						after++
					}
					got = append(got, event{prod: i})
					if len(got)-1 == k {
						failed = true
						return shaped(sent, sentID)
					}
					return nil
				},
			)
		}()
		res.Evals++
		kind := "prodF"
		if hist[k].isTok {
			kind = "tokenF"
		}
		res.Count("fault_"+kind+"_error", 1)
		what := fmt.Sprint(hist[k].prod)
		if hist[k].isTok {
			what = string(hist[k].term)
		}
		res.Key("parse", kind, what, lenClass(len(hist)))
		if !failed {
			return res.Fail("fault:not_reached", "Parse with a failure planned at step %d ended before reaching it (err=%v)", k, err)
		}
		if after > 0 {
			return res.Fail("fault:callback_after_error", "%s returned an error at step %d, yet %d more callbacks were invoked", kind, k, after)
		}
		for j := range got {
			if got[j] != hist[j] {
				return res.Fail("fault:prefix", "history before the failing step %d differs from the fault-free history at %d: %s vs %s", k, j, got[j], hist[j])
			}
		}
		if err == nil {
			return res.Fail("fault:error_swallowed", "%s returned an error at step %d (%s) but Parse returned nil", kind, k, hist[k])
		}
		if !errors.Is(err, sent) && !strings.Contains(err.Error(), sent.Error()) {
			return res.Fail("fault:error_replaced", "%s returned %q (shape %d) at step %d but Parse returned %q, from which the callback's error cannot be recovered", kind, shaped(sent, sentID), sentID%5, k, err)
		}
		res.Key("errshape", kind, sentID%5)
	}
	// evaluate callback failing at each of its calls
	nEval := len(calls)
	var esteps []int
	if every {
		for k := 0; k < nEval; k++ {
			esteps = append(esteps, k)
		}
	} else {
		for i := 0; i < 20 || (x.Tier == "thorough" && i < 120); i++ {
			esteps = append(esteps, t.Draw(nEval))
		}
	}
	for _, k := range esteps {
		sentID++
		sent := &sentinel{id: sentID*1000 + k}
		gotCalls, _, root, err := runEval(k, shaped(sent, sentID))
		res.Evals++
		res.Count("fault_eval_error", 1)
		res.Key("eval", calls[k].prod, lenClass(len(hist)))
		if len(gotCalls) != k+1 {
			return res.Fail("fault:eval_after_error", "evaluate callback failed at call %d, but %d calls were made in total", k, len(gotCalls))
		}
		for j := range gotCalls {
			if gotCalls[j].prod != calls[j].prod {
				return res.Fail("fault:eval_prefix", "evaluate history before failing call %d differs at %d", k, j)
			}
		}
		if err == nil || root != nil {
			return res.Fail("fault:eval_error_swallowed", "evaluate callback returned an error at call %d but ParseAndEvaluate returned (%v, %v)", k, root, err)
		}
		if !errors.Is(err, sent) && !strings.Contains(err.Error(), sent.Error()) {
			return res.Fail("fault:eval_error_replaced", "evaluate callback returned %q at call %d but ParseAndEvaluate returned %q", sent, k, err)
		}
	}
	if c.Index < 2 {
		res.Sample = map[string]any{
			"input_excerpt": string(text[:min(len(text), 300)]), "tokens": len(want), "reductions": len(hist) - len(want),
			"failing_steps_injected": len(steps) + len(esteps), "first_events": fmt.Sprint(hist[:min(len(hist), 12)]),
		}
	}
	return res
}

func samePos(a, b *lexer.Position) bool {
	if a == nil || b == nil {
		return a == nil && b == nil
	}
	return a.Offset == b.Offset && a.Line == b.Line && a.Column == b.Column
}

func lenClass(n int) string {
	switch {
	case n < 20:
		return "<20"
	case n < 60:
		return "<60"
	case n < 200:
		return "<200"
	}
	return ">=200"
}
