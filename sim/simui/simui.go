// Package simui replaces github.com/gardenbed/charm/ui in the scratch copy of cmd/emerge/main.go
// (import alias "ui"): New returns a recording user interface that writes to the simulated
// process's standard streams and keeps every message as an event, so that the oracles can
// recognise the success announcement by its format string and drop rune-typed arguments (the
// decorative emoji) without mirroring any emoji table.
package simui

import (
	"fmt"
	"strings"

	real "github.com/gardenbed/charm/ui"

	"github.com/gardenbed/emerge/zz_verif/simos"
)

type (
	UI       = real.UI
	Level    = real.Level
	Style    = real.Style
	ANSICode = real.ANSICode
)

const (
	Trace = real.Trace
	Debug = real.Debug
	Info  = real.Info
	Warn  = real.Warn
	Error = real.Error
	None  = real.None
)

var (
	Black   = real.Black
	Red     = real.Red
	Green   = real.Green
	Yellow  = real.Yellow
	Blue    = real.Blue
	Magenta = real.Magenta
	Cyan    = real.Cyan
	White   = real.White
)

func Fg256Color(code int) Style { return real.Fg256Color(code) }
func Bg256Color(code int) Style { return real.Bg256Color(code) }
func NewNop() UI                { return real.NewNop() }

// Msg is one recorded message.
type Msg struct {
	Proc   int    `json:"proc"`
	Method string `json:"method"`
	Format string `json:"format"`
	Text   string `json:"text"` // formatted with rune-typed arguments dropped
	Shown  bool   `json:"shown"`
}

// Log collects the messages of all recorders created since the last Reset.
var Log []Msg

func Reset() { Log = nil }

type recorder struct {
	level Level
	proc  *simos.Proc
	out   *simos.File
	err   *simos.File
}

// New mirrors ui.New: messages go to the standard streams of the simulated process.
func New(level Level) UI {
	return &recorder{level: level, out: simos.Stdout, err: simos.Stderr}
}

func stripRunes(format string, a []interface{}) string {
	b := make([]interface{}, len(a))
	for i, v := range a {
		if _, ok := v.(rune); ok {
			b[i] = rune('?')
		} else {
			b[i] = v
		}
	}
	return fmt.Sprintf(format, b...)
}

func (r *recorder) emit(method string, min Level, toErr bool, format string, a []interface{}) {
	shown := method == "Printf" || r.level <= min
	pid := 0
	if simos.W != nil {
		for _, p := range simos.W.Procs {
			if p.Out == r.out {
				pid = p.ID
			}
		}
	}
	Log = append(Log, Msg{Proc: pid, Method: method, Format: format, Text: stripRunes(format, a), Shown: shown})
	if !shown {
		return
	}
	s := fmt.Sprintf(format, a...)
	if !strings.HasSuffix(s, "\n") || true {
		s += "\n"
	}
	if toErr {
		r.err.Write([]byte(s))
	} else {
		r.out.Write([]byte(s))
	}
}

func (r *recorder) Printf(format string, a ...interface{}) { r.emit("Printf", None, false, format, a) }
func (r *recorder) GetLevel() Level                        { return r.level }
func (r *recorder) SetLevel(l Level)                       { r.level = l }
func (r *recorder) Tracef(s Style, format string, a ...interface{}) {
	r.emit("Tracef", Trace, false, format, a)
}
func (r *recorder) Debugf(s Style, format string, a ...interface{}) {
	r.emit("Debugf", Debug, false, format, a)
}
func (r *recorder) Infof(s Style, format string, a ...interface{}) {
	r.emit("Infof", Info, false, format, a)
}
func (r *recorder) Warnf(s Style, format string, a ...interface{}) {
	r.emit("Warnf", Warn, false, format, a)
}
func (r *recorder) Errorf(s Style, format string, a ...interface{}) {
	r.emit("Errorf", Error, true, format, a)
}
