// Command iosim hosts the engines that need no source rewriting (existing seams only):
// C13, C14 (library half) and C18.
package main

import (
	"os"

	"github.com/gardenbed/emerge/zz_verif/c13"
	"github.com/gardenbed/emerge/zz_verif/c14"
	"github.com/gardenbed/emerge/zz_verif/c18"
	"github.com/gardenbed/emerge/zz_verif/c19"
	"github.com/gardenbed/emerge/zz_verif/simrt"
)

func main() {
	if len(os.Args) == 3 && os.Args[1] == "-pattern-probe" {
		c14.PatternProbe(os.Args[2])
		return
	}
	fx := os.Getenv("VERIF_FIXTURES")
	simrt.Main(
		c13.Engine{FixtureDir: fx},
		c14.Engine{FixtureDir: fx, EmergeBin: os.Getenv("VERIF_EMERGE_BIN")},
		c18.Engine{FixtureDir: fx},
		c19.Engine{GoCmd: os.Getenv("VERIF_GO")},
	)
}
