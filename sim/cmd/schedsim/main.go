// Command schedsim hosts the scheduler-controlled engine (C17): scratch copy with yield points
// inserted in emerge's packages, built with -race (the race detector is the access monitor).
package main

import (
	"encoding/json"
	"fmt"
	"os"

	"github.com/gardenbed/emerge/zz_verif/c17"
	"github.com/gardenbed/emerge/zz_verif/simrt"
	simctl "github.com/moorara/algo/zz_simctl"
)

func main() {
	simctl.Quiet = true // map ranges are ordered, not counted: workers share no harness state the detector could report
	e := c17.Engine{FixtureDir: os.Getenv("VERIF_FIXTURES"), IsoTable: os.Getenv("VERIF_ISO_TABLE"), RaceLog: os.Getenv("VERIF_RACE_LOG")}
	if len(os.Args) == 3 && os.Args[1] == "-iso-op" {
		var o c17.Op
		if err := json.Unmarshal([]byte(os.Args[2]), &o); err != nil {
			fmt.Fprintln(os.Stderr, err)
			os.Exit(2)
		}
		fmt.Print(e.Exec(o))
		return
	}
	if len(os.Args) == 3 && os.Args[1] == "-build-iso" {
		if err := e.BuildIsoTable(os.Args[2]); err != nil {
			fmt.Fprintln(os.Stderr, err)
			os.Exit(2)
		}
		return
	}
	simrt.Main(e)
}
