// Command detsim hosts the order/clock-controlled engine (C15): scratch copy of emerge AND of
// moorara/algo with map ranges, the dependency's clock and the os/ui seams rewritten.
package main

import (
	"os"

	"github.com/gardenbed/emerge/zz_verif/c15"
	"github.com/gardenbed/emerge/zz_verif/simrt"
)

func main() {
	simrt.Main(
		c15.Engine{EmergeBin: os.Getenv("VERIF_EMERGE_BIN"), FixtureDir: os.Getenv("VERIF_FIXTURES")},
	)
}
