// Command fssim hosts the engines that run the real main/command/generator in-process on the
// simulated operating system (scratch copy with os->simos, charm/ui->simui, main->VerifMain).
package main

import (
	"os"

	"github.com/gardenbed/emerge/zz_verif/c16"
	"github.com/gardenbed/emerge/zz_verif/simrt"
)

func main() {
	simrt.Main(
		c16.Engine{TemplateDir: os.Getenv("VERIF_TEMPLATES"), EmergeBin: os.Getenv("VERIF_EMERGE_BIN")},
		c16.Engine{TemplateDir: os.Getenv("VERIF_TEMPLATES"), CLIOnly: true},
	)
}
