package symboltable

import "github.com/moorara/algo/zz_simctl"

func init() { zz_simctl.RegisterReseed(func(s int64) { r.Seed(s) }) }
