// Package simtime stands in for "time" in the dependency's packages that read the wall clock
// only to seed a PRNG (set, sort, symboltable): Now() is the simulator's clock.
package simtime

import (
	real "time"

	"github.com/moorara/algo/zz_simctl"
)

type (
	Duration = real.Duration
	Month    = real.Month
	Weekday  = real.Weekday
)

const (
	Nanosecond  = real.Nanosecond
	Microsecond = real.Microsecond
	Millisecond = real.Millisecond
	Second      = real.Second
	Minute      = real.Minute
	Hour        = real.Hour
)

// Time is the simulated instant.
type Time struct{ ns int64 }

func Now() Time                    { return Time{zz_simctl.NowNanos()} }
func (t Time) UTC() Time           { return t }
func (t Time) UnixNano() int64     { return t.ns }
func (t Time) Unix() int64         { return t.ns / 1e9 }
func (t Time) UnixMilli() int64    { return t.ns / 1e6 }
func (t Time) Sub(u Time) Duration { return Duration(t.ns - u.ns) }
func Since(t Time) Duration        { return Duration(zz_simctl.NowNanos() - t.ns) }
