// Package simtime stands in for "time" under the order-and-clock-controlled engine: Now() is the
// simulator's clock, everything else is the real package. It replaces the import in the
// dependency's packages that seed PRNGs from the wall clock (set, sort, symboltable) and in
// emerge's own packages, so that any output that depends on the time of the run differs between
// two clock configurations deterministically.
package simtime

import (
	real "time"

	"github.com/moorara/algo/zz_simctl"
)

type (
	Duration = real.Duration
	Month    = real.Month
	Weekday  = real.Weekday
	Location = real.Location
	Timer    = real.Timer
	Ticker   = real.Ticker
)

const (
	Nanosecond  = real.Nanosecond
	Microsecond = real.Microsecond
	Millisecond = real.Millisecond
	Second      = real.Second
	Minute      = real.Minute
	Hour        = real.Hour

	RFC3339     = real.RFC3339
	RFC3339Nano = real.RFC3339Nano
	RFC1123     = real.RFC1123
	RFC822      = real.RFC822
	Kitchen     = real.Kitchen
	DateTime    = real.DateTime
	DateOnly    = real.DateOnly
	TimeOnly    = real.TimeOnly
	ANSIC       = real.ANSIC
	UnixDate    = real.UnixDate
	Stamp       = real.Stamp
)

var (
	UTC   = real.UTC
	Local = real.UTC // the simulated machine lives in UTC
)

// Time is a real time.Time whose value comes from the simulated clock.
type Time = real.Time

// Now reads the simulated clock (an instant in 2001, advancing a little on every read).
func Now() Time { return real.Unix(1_000_000_000, zz_simctl.NowNanos()).UTC() }

func Since(t Time) Duration     { return Now().Sub(t) }
func Until(t Time) Duration     { return t.Sub(Now()) }
func Unix(sec, nsec int64) Time { return real.Unix(sec, nsec) }
func UnixMilli(ms int64) Time   { return real.UnixMilli(ms) }
func Date(y int, m Month, d, h, mi, s, ns int, l *Location) Time {
	return real.Date(y, m, d, h, mi, s, ns, l)
}
func Parse(layout, value string) (Time, error) { return real.Parse(layout, value) }
func ParseDuration(s string) (Duration, error) { return real.ParseDuration(s) }
func Sleep(d Duration)                         {} // simulated time: nothing to wait for
func After(d Duration) <-chan Time             { c := make(chan Time, 1); c <- Now(); return c }
func NewTimer(d Duration) *Timer               { return real.NewTimer(0) }
func Tick(d Duration) <-chan Time              { return real.Tick(d) }
