// Package zz_simctl is the order-and-clock controller of the simulator. It is copied into the
// scratch copy of github.com/moorara/algo so that both the dependency and emerge can import it.
// Every rewritten map range asks it for the key order; the rewritten clock of the dependency
// (which seeds its deliberately shuffling hash tables, sets and quicksort) reads its time.
package zz_simctl

import (
	"fmt"
	"reflect"
	"sort"
	realsync "sync"
	realtime "time"
)

const (
	Sorted   = 0
	Reversed = 1
	Permuted = 2
)

var (
	policy int
	seed   uint64
	clock  int64
	// reach counters
	RangesTotal    int
	RangesMulti    int            // map ranges executed over >= 2 keys
	SiteSizes      map[string]int // key type -> max size seen
	ClockReads     int
	reseeders      []func(int64)
	permuteCounter uint64
	// Quiet switches the reach counters off: under the scheduler engine map ranges are executed by
	// worker goroutines that the race detector must see as unordered, and a counter shared by them
	// would itself be reported as a race.
	Quiet bool
)

// RegisterReseed lets a package with a time-seeded package-level PRNG hand over its Seed method.
func RegisterReseed(f func(int64)) { reseeders = append(reseeders, f) }

// Begin starts one order configuration: map key order policy, PRNG/clock seed.
func Begin(p int, s uint64) {
	policy, seed = p, s
	clock = int64(s%1_000_000_007) * 1_000
	RangesTotal, RangesMulti, ClockReads, permuteCounter = 0, 0, 0, 0
	GoroutinesSpawned, GoroutinesControlled, GoroutinesFallback = 0, 0, 0
	SiteSizes = map[string]int{}
	for i, f := range reseeders {
		f(int64(mix(s, uint64(i+1)) >> 1))
	}
}

func mix(a, b uint64) uint64 {
	z := a + b*0x9e3779b97f4a7c15 + 0x632be59bd9b4e019
	z = (z ^ (z >> 30)) * 0xbf58476d1ce4e5b9
	z = (z ^ (z >> 27)) * 0x94d049bb133111eb
	return z ^ (z >> 31)
}

// NowNanos is the simulated clock: it advances by a seed-dependent delta on every read.
// (Not instrumented for the race detector: under the scheduler engine it is read by the worker
// goroutines, of which exactly one runs at a time.)
//
//go:norace
func NowNanos() int64 {
	ClockReads++
	clock += 1 + int64(mix(seed, uint64(ClockReads))%1000)
	return clock
}

func less(a, b reflect.Value) bool {
	switch a.Kind() {
	case reflect.Int, reflect.Int8, reflect.Int16, reflect.Int32, reflect.Int64:
		return a.Int() < b.Int()
	case reflect.Uint, reflect.Uint8, reflect.Uint16, reflect.Uint32, reflect.Uint64, reflect.Uintptr:
		return a.Uint() < b.Uint()
	case reflect.String:
		return a.String() < b.String()
	case reflect.Float32, reflect.Float64:
		return a.Float() < b.Float()
	case reflect.Bool:
		return !a.Bool() && b.Bool()
	}
	return fmt.Sprintf("%#v", a.Interface()) < fmt.Sprintf("%#v", b.Interface())
}

func order[K comparable](keys []K) {
	if !Quiet {
		if SiteSizes == nil {
			SiteSizes = map[string]int{}
		}
		RangesTotal++
	}
	if len(keys) < 2 {
		return
	}
	if !Quiet {
		RangesMulti++
		var zero K
		tn := fmt.Sprintf("%T", zero)
		if len(keys) > SiteSizes[tn] {
			SiteSizes[tn] = len(keys)
		}
	}
	sort.SliceStable(keys, func(i, j int) bool { return less(reflect.ValueOf(keys[i]), reflect.ValueOf(keys[j])) })
	switch policy {
	case Reversed:
		for i, j := 0, len(keys)-1; i < j; i, j = i+1, j-1 {
			keys[i], keys[j] = keys[j], keys[i]
		}
	case Permuted:
		if Quiet {
			panic("simctl: the Permuted policy keeps a shared counter and is not available in Quiet mode")
		}
		permuteCounter++
		s := mix(seed, permuteCounter)
		for i := len(keys) - 1; i > 0; i-- {
			s = mix(s, uint64(i))
			j := int(s % uint64(i+1))
			keys[i], keys[j] = keys[j], keys[i]
		}
	}
}

// Keys snapshots the keys of m in the order the current policy decides.
func Keys[M ~map[K]V, K comparable, V any](m M) []K {
	keys := make([]K, 0, len(m))
	for k := range m {
		keys = append(keys, k)
	}
	order(keys)
	return keys
}

// Pair is one key/value of a snapshotted map.
type Pair[K comparable, V any] struct {
	K K
	V V
}

// Pairs snapshots keys and values once (used when the range expression is not a pure selector).
func Pairs[M ~map[K]V, K comparable, V any](m M) []Pair[K, V] {
	keys := Keys(m)
	out := make([]Pair[K, V], len(keys))
	for i, k := range keys {
		out[i] = Pair[K, V]{k, m[k]}
	}
	return out
}

// ---- goroutines spawned by the code under test ---------------------------------------------------

// Gate holds one spawned goroutine until the simulator lets it run.
type Gate struct {
	id      int
	release chan struct{}
	done    chan struct{}
	entered bool
}

var (
	gateMu      realsync.Mutex
	pending     []*Gate
	gateCounter int
	// reach
	GoroutinesSpawned    int
	GoroutinesControlled int
	GoroutinesFallback   int // released by the wall-clock fallback (no join point the simulator knows)
)

// NewGate registers a goroutine at the point of its go statement (spawn order).
func NewGate() *Gate {
	gateMu.Lock()
	defer gateMu.Unlock()
	gateCounter++
	GoroutinesSpawned++
	g := &Gate{id: gateCounter, release: make(chan struct{}), done: make(chan struct{})}
	pending = append(pending, g)
	if len(pending) == 1 {
		// fallback: a join the simulator does not intercept (channels, polling) must not deadlock
		go func() {
			realtime.Sleep(150 * realtime.Millisecond)
			gateMu.Lock()
			n := len(pending)
			gateMu.Unlock()
			if n > 0 {
				GoroutinesFallback += n
				RunPending()
			}
		}()
	}
	return g
}

// Enter parks the spawned goroutine until it is released.
func (g *Gate) Enter() { <-g.release }

// Exit reports that the goroutine has finished.
func (g *Gate) Exit() { close(g.done) }

// RunPending releases the pending goroutines one at a time in the order the policy decides and
// waits for each to finish (bounded, so goroutines that wait for each other cannot deadlock it).
func RunPending() {
	gateMu.Lock()
	batch := pending
	pending = nil
	gateMu.Unlock()
	if len(batch) == 0 {
		return
	}
	idx := make([]int, len(batch))
	for i := range idx {
		idx[i] = i
	}
	switch policy {
	case Reversed:
		for i, j := 0, len(idx)-1; i < j; i, j = i+1, j-1 {
			idx[i], idx[j] = idx[j], idx[i]
		}
	case Permuted:
		if Quiet {
			panic("simctl: the Permuted policy keeps a shared counter and is not available in Quiet mode")
		}
		permuteCounter++
		s := mix(seed, permuteCounter)
		for i := len(idx) - 1; i > 0; i-- {
			s = mix(s, uint64(i))
			j := int(s % uint64(i+1))
			idx[i], idx[j] = idx[j], idx[i]
		}
	}
	for _, i := range idx {
		g := batch[i]
		close(g.release)
		GoroutinesControlled++
		select {
		case <-g.done:
		case <-realtime.After(2 * realtime.Second):
		}
	}
}
