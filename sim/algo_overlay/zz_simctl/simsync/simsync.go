// Package simsync stands in for "sync" in emerge's packages under the order-controlled engine:
// everything is the real thing except WaitGroup.Wait, which first lets the simulator run the
// goroutines spawned by the code under test one at a time in the order the current configuration
// decides (spawn order, reverse, seeded permutation), so that a dependence of the output on the
// completion order of fork-join goroutines shows deterministically.
package simsync

import (
	real "sync"

	"github.com/moorara/algo/zz_simctl"
)

type (
	Mutex   = real.Mutex
	RWMutex = real.RWMutex
	Once    = real.Once
	Pool    = real.Pool
	Map     = real.Map
	Cond    = real.Cond
	Locker  = real.Locker
)

func NewCond(l Locker) *Cond { return real.NewCond(l) }

func OnceFunc(f func()) func() { return real.OnceFunc(f) }

// WaitGroup is sync.WaitGroup whose Wait releases the gated goroutines first.
type WaitGroup struct{ wg real.WaitGroup }

func (w *WaitGroup) Add(n int) { w.wg.Add(n) }
func (w *WaitGroup) Done()     { w.wg.Done() }
func (w *WaitGroup) Wait() {
	zz_simctl.RunPending()
	w.wg.Wait()
}
