package gen

import (
	"fmt"
	"regexp"
	"strings"

	"github.com/gardenbed/emerge/zz_verif/simrt"
)

// NastyBytes are byte sequences used for mutations: NUL, lone continuation bytes, truncated and
// over-long UTF-8, surrogates, quotes and escapes.
var NastyBytes = [][]byte{{0}, {0x80}, {0xff}, {0xc3}, {0xc3, 0xa9}, {0xe2, 0x82, 0xac}, {0xf0, 0x9f, 0x8c, 0xb5}, {0xed, 0xa0, 0x80}, {'\\'}, {'"'}, {'/'}, {'*'}, {'$'}, {'@'}, {0x7f}, {0x1b}, {'\r'}, {0xf4, 0x90, 0x80, 0x80}, {0xe0, 0x80}}

// ---- pattern generator --------------------------------------------------------------------------

var atoms = []string{"a", "b", "z", "0", "_", " ", ".", `\d`, `\D`, `\w`, `\W`, `\s`, `\S`, `\.`, `\*`, `\\`, `\(`, `\[`, `\{`, `\$`, `\|`,
	`\x41`, `\x7F`, `\x00`, `\xFF`, `\x0100`, `\x20AC`, `\x1F335`, `\x0010FFFF`, `\x00110000`, `\xFFFFFFFF`, `\x7FFFFFFF`, `\x80000000`, `\xD800`, `\xFFFF`, "é", "€", "🌵", `\p{L}`, `\p{Lu}`, `\P{Nd}`, `\p{Greek}`, `\p{Nope}`, `\p{}`,
	"[:alpha:]", "[:digit:]", "[:word:]", "[:nope:]", "$", "^", "-", ",", "}", "]", ")", "?", "+", "*", "|", "(", "[", "{"}
var groupItems = []string{"a", "z", "0", "9", "_", "-", "^", "]", `\]`, `\\`, `\d`, `\w`, `\s`, "a-z", "0-9", "A-Z", "z-a", "a-", "-a", `\x41`, `\x41-\x5A`, `\xFF`, `\x80-\xFF`, `\x0100`, `\x0100-\x0200`, `\xFFFFFFFF`, `\x7FFFFFFF`, `\x00-\xFFFFFFFF`, `\x0010FFFF`, `\x00110000`,
	"é", "€", "a-é", "🌵", "[:alpha:]", "[:digit:]", "[:ascii:]", "[:nope:]", `\p{L}`, `\P{L}`, " ", ".", "*", "(", "|"}
var quants = []string{"", "", "", "?", "*", "+", "??", "*?", "+?", "{2}", "{0}", "{1,3}", "{2,}", "{,3}", "{3,1}", "{}", "{a}", "{4}", "{0,0}", "{1,1}?"}

// GenPattern draws a pattern string and a shape class: atoms, bracket groups, groups, quantifiers,
// non-ASCII characters and escapes, with an optional one-edit mutation.
func GenPattern(t *simrt.Tape) (string, string) {
	var b strings.Builder
	shape := "plain"
	switch t.Draw(12) {
	case 0:
		return "", "empty"
	case 1:
		shape = "anchored"
		b.WriteString("^")
	}
	n := 1 + t.Draw(5)
	for i := 0; i < n; i++ {
		switch t.Draw(6) {
		case 0, 1:
			a := atoms[t.Draw(len(atoms))]
			b.WriteString(a)
			if strings.HasPrefix(a, `\x`) || a[0] >= 0x80 {
				shape = "non_ascii_or_escape"
			}
		case 2: // bracket group
			b.WriteString("[")
			if t.Chance(1, 3) {
				b.WriteString("^")
			}
			m := t.Draw(4)
			for j := 0; j < m; j++ {
				b.WriteString(groupItems[t.Draw(len(groupItems))])
			}
			if !t.Chance(1, 10) {
				b.WriteString("]")
			}
			shape = "bracket_group"
		case 3: // group
			b.WriteString("(")
			b.WriteString(atoms[t.Draw(len(atoms))])
			if t.Chance(1, 2) {
				b.WriteString("|")
				b.WriteString(atoms[t.Draw(len(atoms))])
			}
			if !t.Chance(1, 10) {
				b.WriteString(")")
			}
			if shape == "plain" {
				shape = "group"
			}
		case 4:
			b.WriteString(atoms[t.Draw(20)])
		case 5:
			b.WriteString("|")
		}
		b.WriteString(quants[t.Draw(len(quants))])
	}
	p := b.String()
	// one-edit mutation
	if t.Chance(1, 4) && len(p) > 0 {
		at := t.Draw(len(p))
		switch t.Draw(3) {
		case 0:
			p = p[:at] + p[at+1:]
		case 1:
			p = p[:at] + string(NastyBytes[t.Draw(len(NastyBytes))]) + p[at:]
		default:
			p = p[:at] + atoms[t.Draw(len(atoms))] + p[at:]
		}
		shape += "+edit"
	}
	return capRanges(p), shape
}

var wideRangeRE = regexp.MustCompile(`-(\\x[0-9A-F]{4,8}|[^\x00-\x7f\]])`)

// capRanges removes the '-' of a bracket range whose upper end lies far up in the code space: the
// regex back ends expand a range into one transition per code point, so `[a-\x0010FFFF]` needs
// more than 11 GB (recorded as a known finding of C14 and probed once per run in a
// memory-limited child process instead of in every worker).
func capRanges(p string) string {
	return wideRangeRE.ReplaceAllStringFunc(p, func(m string) string {
		hi := 0
		if strings.HasPrefix(m, `-\x`) {
			fmt.Sscanf(m[3:], "%X", &hi)
		} else {
			for _, r := range m[1:] {
				hi = int(r)
			}
		}
		if hi > 0x3000 {
			return m[1:]
		}
		return m
	})
}
