package gen

import (
	"fmt"
	"strings"

	"github.com/gardenbed/emerge/zz_verif/simrt"
)

// SpecFromText turns a text into a token list through the independent tokenizer
// (no semicolon is marked removable). It returns nil if the text is not tokenizable.
func SpecFromText(b []byte) *Spec {
	lex, bad := Tokenize(b)
	if bad >= 0 {
		return nil
	}
	s := &Spec{Mode: "text"}
	for _, l := range lex {
		if !IsSeparator(l.Kind) {
			s.Toks = append(s.Toks, Tok{Kind: l.Kind, Text: string(b[l.Start : l.Start+l.Len])})
		}
	}
	return s
}

var pkgNames = []string{"calc", "lang1", "my_parser", "p", "ebnfx", "json_like", "x9"}

// InputClass values of GenInput.
const (
	InAccepted      = "accepted"
	InSyntax        = "syntax_error"
	InSemantic      = "semantic_error"
	InTokenConflict = "token_conflict"
	InLALRConflict  = "lalr_conflict"
	InBadPattern    = "bad_pattern"
	InEmpty         = "empty"
	InMultiStage    = "several_stages_fail"
)

var InputClasses = []string{InAccepted, InAccepted, InAccepted, InSyntax, InSemantic, InTokenConflict, InLALRConflict, InBadPattern, InEmpty, InMultiStage}

// GenInput draws a small specification text of the requested class. The families are kept to a
// handful of productions because the dependency's LALR construction is slow on larger grammars.
func GenInput(t *simrt.Tape, class string) (name string, text string) {
	name = pkgNames[t.Draw(len(pkgNames))]
	var b strings.Builder
	fmt.Fprintf(&b, "grammar %s;\n", name)
	idRe := []string{`/[a-z]+/`, `/[a-z][a-z0-9]*/`, `$ID`}[t.Draw(3)]
	numRe := []string{`/[0-9]+/`, `$NUMBER`, `/0|[1-9][0-9]*/`}[t.Draw(3)]
	switch class {
	case InAccepted:
		switch t.Draw(13) {
		case 11, 12:
			// a pattern token every match of which is also the value of a string terminal: the strings
			// win every accepting state, the pattern token ends up owning none (an entry without states
			// in whatever table the generator builds), next to ordinary tokens that do own states
			fam := [][]string{
				{`/true|false/`, `"true"`, `"false"`},
				{`/(x|y)/`, `"x"`, `"y"`},
				{`/ab?/`, `"a"`, `"ab"`},
				{`/if|else|end/`, `"if"`, `"else"`, `"end"`},
				{`/<=?/`, `"<"`, `"<="`},
			}[t.Draw(5)]
			extra := []string{"NUM = /[0-9]+/;\n", "NUM = $NUMBER;\nSTR = $STRING;\n", "WS = /[ \\t]+/;\nNUM = /[0-9]+/;\n"}[t.Draw(3)]
			fmt.Fprintf(&b, "SHADOW = %s;\nID = %s;\n%sstart = SHADOW | ID NUM | %s;\n", fam[0], []string{`/[a-z]+/`, `/[a-z][a-z0-9]*/`}[t.Draw(2)], extra, strings.Join(fam[1:], " | "))
		case 9, 10:
			// a few long keywords: a token automaton with well over 64 states, yet only a handful of
			// productions (the dependency's LALR construction is slow in the number of productions)
			n := 5 + t.Draw(3)
			var items []string
			for i := 0; i < n; i++ {
				var w strings.Builder
				l := 11 + t.Draw(6)
				for j := 0; j < l; j++ {
					w.WriteByte(byte('a' + (i*7+j*3+t.Draw(4))%26))
				}
				items = append(items, `"`+w.String()+`"`)
			}
			fmt.Fprintf(&b, "ID = %s;\nstart = { item };\nitem = ID | %s;\n", []string{`/[a-z]+/`, `/[a-z][a-z0-9]*/`}[t.Draw(2)], strings.Join(items, " | "))
		case 7, 8:
			// keyword lists: same-kind, same-length names that differ only in case or in one letter -
			// ties for any comparator that is coarser than the full name
			pool := []string{`"select"`, `"SELECT"`, `"Select"`, `"from"`, `"FROM"`, `"e"`, `"E"`, `"x"`, `"X"`, `"if"`, `"IF"`, `"If"`, `"ab"`, `"ba"`, `"AB"`}
			var items []string
			seen := map[string]bool{}
			n := 2 + t.Draw(6)
			for i := 0; i < n; i++ {
				it := pool[t.Draw(len(pool))]
				if !seen[it] {
					seen[it] = true
					items = append(items, it)
				}
			}
			fmt.Fprintf(&b, "start = %s;\n", strings.Join(items, " | "))
		case 0:
			fmt.Fprintf(&b, "start = %s;\n", []string{`"a"`, `"a" "b"`, `"x" | "y"`}[t.Draw(3)])
		case 1:
			fmt.Fprintf(&b, "ITEM = %s;\nstart = {{ ITEM }};\n", idRe)
		case 2:
			fmt.Fprintf(&b, "NUM = %s;\n@left \"+\" \"-\";\n@left \"*\";\nstart = start \"+\" start | start \"-\" start | start \"*\" start | \"(\" start \")\" | NUM;\n", numRe)
		case 3:
			fmt.Fprintf(&b, "ID = %s;\nNUM = %s;\nstart = { stmt };\nstmt = ID \"=\" NUM \";\" | \"print\" ID \";\";\n", []string{`/[a-z]+/`, `/[a-z][a-z0-9]*/`}[t.Draw(2)], []string{`/[0-9]+/`, `/0|[1-9][0-9]*/`}[t.Draw(2)])
		case 4:
			fmt.Fprintf(&b, "start = \"a\" [ \"b\" ] ( \"c\" | \"d\" );\n")
		case 5:
			fmt.Fprintf(&b, "WS = $WS;\nCOMMENT = /#[\\x20-\\x7E]*/;\nWORD = /[a-z]+/;\nstart = WORD { \",\" WORD };\n")
		case 6:
			fmt.Fprintf(&b, "STR = $STRING;\n@right \"=\";\nstart = pair | start \"=\" start;\npair = STR \":\" STR;\n")
		}
	case InSyntax:
		b.WriteString([]string{"start = = ;\n", "start = ( \"a\" ;\n", "start \"a\";\n", "TOK = ;\nstart = TOK;\n"}[t.Draw(4)])
	case InSemantic:
		b.WriteString([]string{"start = UNDEFINED ;\n", "NUM = /[0-9]+/;\nNUM = /[0-9]/;\nstart = NUM;\n", "rule = \"a\";\n", "start = other;\n", "AA = $NOPE;\nstart = AA;\n", "start = aa bb cc dd;\n", "start = lhs \"=\" rhs | other;\nlhs = \"x\";\n"}[t.Draw(7)])
	case InTokenConflict:
		b.WriteString([]string{"AA = /[a-z]+/;\nBB = /[a-c]+/;\nstart = AA BB;\n", "XX = /ab*/;\nYY = /a+/;\nstart = XX | YY;\n"}[t.Draw(2)])
	case InLALRConflict:
		b.WriteString([]string{"start = start \"+\" start | \"n\";\n", "start = a | b;\na = \"x\";\nb = \"x\";\n",
			"ID = /[a-z]+/;\nstart = [ ID \",\" ] ID;\n", "start = [ \"x\" \"y\" ] [ \"x\" \"z\" ] \"x\";\n", "start = ( \"a\" \"b\" | \"a\" ) \"b\" [ \"b\" \"c\" ] \"b\";\n"}[t.Draw(5)])
	case InBadPattern:
		b.WriteString([]string{"TK = /[z-a]/;\nstart = TK;\n", "TK = /a{3,1}/;\nstart = TK;\n", "TK = /(/;\nstart = TK;\n"}[t.Draw(3)])
	case InMultiStage:
		// accepted by the parser, rejected by more than one later stage at once (the scanner automaton and
		// the parsing table are built by different stages of the generator)
		b.WriteString([]string{
			"ID = /[a-z/;\nstart = start \"+\" start | ID;\n",
			"AA = /[a-z]+/;\nBB = /[a-c]+/;\nstart = start AA start | BB;\n",
			"AA = /a{3,1}/;\nBB = /ab*/;\nCC = /a+/;\nstart = AA | BB | CC | start start;\n",
		}[t.Draw(3)])
	case InEmpty:
		return name, ""
	}
	return name, b.String()
}

// Name classes for the -name flag.
const (
	NameFromGrammar = "from_grammar"
	NameUsable      = "usable"
	NameUnusable    = "unusable"
	NameGrey        = "grey"
)

// GenName draws a -name value and its class. Clearly usable: [a-z][a-z0-9_]*, neither keyword nor
// predeclared. Clearly unusable: keyword, leading digit, '-', '/', '.', blank, the blank
// identifier. Grey zone: predeclared identifiers, non-ASCII letters, upper case.
var (
	UsableNames   = []string{"parser", "out_pkg", "a", "gen2", "zz_9"}
	UnusableNames = []string{"func", "type", "4ever", "a-b", "a/b", "../up", "a.b", "a b", "_", "go", "pkg/", "/abs", ".", "..", "range", "x\x00y", "select", "9", "a\tb", "-x", "a\nb", "interface", "a:b", "a*"}
	GreyNames     = []string{"len", "string", "é", "Parser", "nil", "_x", "日本", "__", "true", "x²"}
)

func GenName(t *simrt.Tape) (value, class string) {
	switch t.Draw(6) {
	case 0, 1:
		return "", NameFromGrammar
	case 2:
		return UsableNames[t.Draw(len(UsableNames))], NameUsable
	case 3, 4:
		return UnusableNames[t.Draw(len(UnusableNames))], NameUnusable
	}
	return GreyNames[t.Draw(len(GreyNames))], NameGrey
}

// GenMultiDiag draws a small specification that is rejected with SEVERAL simultaneous diagnostics:
// token names and values are drawn from tiny pools so that duplicate names, duplicate values
// (between named tokens and between a named token and a literal used in a rule), overlapping
// patterns, unknown predefined names and undefined tokens occur together, in a drawn order of
// declarations (a diagnostic cannot be reordered unless there are at least two of them).
func GenMultiDiag(t *simrt.Tape) string {
	names := []string{"AA", "BB", "CC", "DD", "EE"}
	strs := []string{`"v"`, `"w"`, `"+"`, `"kw"`}
	res := []string{`/[a-z]+/`, `/[a-c]+/`, `/[0-9]+/`, `/[0-5]+/`, `/ab*/`, `/a+/`, `/[z-a]/`, `/a{3,1}/`}
	pre := []string{"$ID", "$NUMBER", "$NOPE", "$ALSO_NOPE", "$WS"}
	var decls []string
	n := 3 + t.Draw(6)
	for i := 0; i < n; i++ {
		nm := names[t.Draw(len(names))]
		switch t.Draw(3) {
		case 0:
			decls = append(decls, nm+" = "+strs[t.Draw(len(strs))]+";")
		case 1:
			decls = append(decls, nm+" = "+res[t.Draw(len(res))]+";")
		default:
			decls = append(decls, nm+" = "+pre[t.Draw(len(pre))]+";")
		}
	}
	var items []string
	m := 2 + t.Draw(5)
	for i := 0; i < m; i++ {
		switch t.Draw(4) {
		case 0:
			items = append(items, names[t.Draw(len(names))])
		case 1:
			items = append(items, []string{"U1", "U2", "U3", "U4"}[t.Draw(4)])
		case 2:
			// rule names that are used but never defined (several of them: a diagnostic cannot be
			// reordered unless there are at least two of its kind)
			items = append(items, []string{"ua", "ub", "uc", "ud", "ue"}[t.Draw(5)])
		default:
			items = append(items, strs[t.Draw(len(strs))])
		}
	}
	rule := "start = " + strings.Join(items, " ") + ";"
	if t.Chance(1, 4) {
		rule = "rule = " + strings.Join(items, " ") + ";" // missing start symbol as well
	}
	at := t.Draw(len(decls) + 1)
	all := append(append(append([]string{}, decls[:at]...), rule), decls[at:]...)
	return "grammar md;\n" + strings.Join(all, "\n") + "\n"
}

// GenLargeSpec draws a valid specification with many rules (well over 1024 significant tokens
// for nRules >= 150), as a token list.
func GenLargeSpec(t *simrt.Tape, nRules int) *Spec {
	var b strings.Builder
	b.WriteString("grammar big;\nNUM = /[0-9]+/;\nID = /[a-z]+/;\n")
	b.WriteString("start = r0")
	for i := 1; i < nRules; i += 1 + t.Draw(3) {
		fmt.Fprintf(&b, " | r%d", i)
	}
	b.WriteString(";\n")
	lits := []string{`"+"`, `"-"`, `"("`, `")"`, `"if"`, `","`, `"="`}
	for i := 0; i < nRules; i++ {
		fmt.Fprintf(&b, "r%d =", i)
		k := 2 + t.Draw(5)
		for j := 0; j < k; j++ {
			switch t.Draw(5) {
			case 0:
				b.WriteString(" NUM")
			case 1:
				b.WriteString(" ID")
			case 2:
				fmt.Fprintf(&b, " r%d", t.Draw(nRules))
			case 3:
				if j > 0 {
					b.WriteString(" |")
				}
				b.WriteString(" " + lits[t.Draw(len(lits))])
			default:
				b.WriteString(" " + lits[t.Draw(len(lits))])
			}
		}
		b.WriteString(";\n")
	}
	return SpecFromText([]byte(b.String()))
}

// GenDeepSpec draws a valid specification whose right-hand sides nest groups depth levels deep
// (mixed bracket kinds, alternatives on the way down and on the way up): the parser's stacks grow
// with the nesting, not with the length of the input.
func GenDeepSpec(t *simrt.Tape, depth int) *Spec {
	open := []string{"(", "[", "{", "{{"}
	close := map[string]string{"(": ")", "[": "]", "{": "}", "{{": "}}"}
	var b strings.Builder
	b.WriteString("grammar deep;\nID = /[a-z]+/;\nstart =")
	var stack []string
	for i := 0; i < depth; i++ {
		if t.Chance(1, 3) {
			b.WriteString([]string{" ID", " \"x\"", " start", " \"y\" |"}[t.Draw(4)])
		}
		o := open[t.Draw(len(open))]
		if len(stack) > 0 && (o == "{" || o == "{{") && strings.HasPrefix(stack[len(stack)-1], "{") {
			o = "(" // "{ {" and "{{ {" need care with separators; keep the text unambiguous
		}
		stack = append(stack, o)
		b.WriteString(" " + o)
	}
	b.WriteString(" ID")
	for i := len(stack) - 1; i >= 0; i-- {
		if t.Chance(1, 4) {
			b.WriteString([]string{" | ID", " \"z\"", " |"}[t.Draw(3)])
		}
		b.WriteString(" " + close[stack[i]])
	}
	b.WriteString(";\n")
	return SpecFromText([]byte(b.String()))
}
