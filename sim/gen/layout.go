package gen

import (
	"bytes"
	"fmt"
	"regexp"
	"strings"

	"github.com/gardenbed/emerge/zz_verif/simrt"
)

// Pos is a position computed by the layout engine itself (reference model R-pos).
// Offsets count characters from 0; lines and columns are 1-based. All generated text is ASCII.
type Pos struct{ Offset, Line, Column int }

func (p Pos) String() string { return fmt.Sprintf("%d:%d", p.Line, p.Column) }

// Lexeme is a maximal piece of the text as the documented scanner splits it
// (tokens, comments, blank runs, line-terminator runs).
type Lexeme struct {
	Kind  string
	Start int
	Len   int
	Tok   int // index into Spec.Toks, or -1 for separators
}

// Layout is one concrete text of a specification.
type Layout struct {
	Text    []byte
	Kept    []int       // indices of Spec.Toks present in the text (optional semicolons may be dropped)
	TokPos  map[int]Pos // Spec.Toks index -> position
	PosTok  map[string]int
	Lexemes []Lexeme
	Style   Style
}

// Style is the full description of a layout; it is a pure function of these fields.
type Style struct {
	SepSeed   uint64 `json:"sep_seed"`   // separator choice per gap
	Baseline  bool   `json:"baseline"`   // single spaces, every semicolon, final newline
	DropSemis bool   `json:"drop_semis"` // drop every removable semicolon chosen by SepSeed
	FinalNL   int    `json:"final_nl"`   // 0 none, 1 "\n", 2 "\r\n", 3 trailing blanks+comment without newline
	LeadPad   int    `json:"lead_pad"`   // bytes of padding before the first token
	MidGap    int    `json:"mid_gap"`    // gap (before kept token #MidGap) receiving MidPad bytes; 0 = none
	MidPad    int    `json:"mid_pad"`
	PadKind   int    `json:"pad_kind"` // 0 spaces, 1 lines of blanks, 2 one block comment, 3 line comments, 4 newlines
	Tight     bool   `json:"tight"`    // omit separators wherever that is lexically safe
}

// Padding returns exactly n bytes of text that the scanner discards.
func Padding(n, kind int) []byte {
	var b bytes.Buffer
	switch kind {
	case 1: // lines of blanks
		for b.Len() < n {
			rest := n - b.Len()
			if rest >= 40 {
				b.WriteString(strings.Repeat(" ", 39))
				b.WriteByte('\n')
			} else {
				b.WriteString(strings.Repeat(" ", rest))
			}
		}
	case 2: // one block comment
		if n >= 5 {
			b.WriteString("/*")
			for b.Len() < n-3 {
				if (b.Len()+1)%64 == 0 {
					b.WriteByte('\n')
				} else {
					b.WriteByte("abcdefghij klmnop"[b.Len()%17])
				}
			}
			b.WriteString("*/ ")
		} else {
			b.WriteString(strings.Repeat(" ", n))
		}
	case 3: // line comments
		for b.Len() < n {
			rest := n - b.Len()
			if rest >= 27 {
				b.WriteString("// padding padding padd.\n") // 27 bytes: a period coprime with the buffer size
			} else if rest >= 3 {
				b.WriteString("//")
				b.WriteString(strings.Repeat("x", rest-3))
				b.WriteByte('\n')
			} else {
				b.WriteString(strings.Repeat("\n", rest))
			}
		}
	case 4:
		b.WriteString(strings.Repeat("\n", n))
	default:
		b.WriteString(strings.Repeat(" ", n))
	}
	return b.Bytes()
}

var separators = []string{" ", "\t", "\n", "\r\n", "  ", " \n", "\n\n", " // c\n", "/* c */", " /* multi\nline */ ", "\t\t", "\n  ", "//\n", " /**/ ",
	// comments whose text looks like specification text, with tabs, quotes and punctuation inside
	"//\t| x \"y\"\n", " // a\tb ; = @left <r> {{ }} \n", "/*\t*/", "/* a\n\t* b = \"c\" ; */", "//\t\n", " /* @right\t\"(\" */ "}

func needsSep(l, r Tok) bool {
	if IsWordy(l.Kind) && IsWordy(r.Kind) {
		return true
	}
	lb := l.Kind == "{" || l.Kind == "{{"
	rb := r.Kind == "{" || r.Kind == "{{"
	if lb && rb {
		return true
	}
	lb = l.Kind == "}" || l.Kind == "}}"
	rb = r.Kind == "}" || r.Kind == "}}"
	if lb && rb {
		return true
	}
	// a token ending in '/' followed by one starting with '/' or '*' would open a comment
	if strings.HasSuffix(l.Text, "/") && (strings.HasPrefix(r.Text, "/") || strings.HasPrefix(r.Text, "*")) {
		return true
	}
	return false
}

// Render lays a specification out. It is deterministic in (spec, style).
func Render(s *Spec, st Style) *Layout {
	rng := simrt.NewSplitMix(st.SepSeed)
	lay := &Layout{TokPos: map[int]Pos{}, PosTok: map[string]int{}, Style: st}
	var b bytes.Buffer

	// which tokens are kept
	for i, t := range s.Toks {
		drop := false
		if t.Removable && !st.Baseline {
			r := rng.Next()
			if st.DropSemis || r%3 == 0 {
				drop = true
			}
		}
		if !drop {
			lay.Kept = append(lay.Kept, i)
		}
	}

	b.Write(Padding(st.LeadPad, st.PadKind))
	for k, idx := range lay.Kept {
		t := s.Toks[idx]
		if k > 0 {
			prev := s.Toks[lay.Kept[k-1]]
			sep := " "
			if !st.Baseline {
				r := rng.Next()
				sep = separators[r%uint64(len(separators))]
				if (st.Tight || r>>32%4 == 0) && !needsSep(prev, t) {
					sep = ""
				}
			}
			// a separator starting with '/' directly after a token ending in '/' would glue
			if strings.HasPrefix(sep, "/") && strings.HasSuffix(prev.Text, "/") {
				sep = " " + sep
			}
			b.WriteString(sep)
			if st.MidPad > 0 && k == st.MidGap {
				if b.Len() > 0 && b.Bytes()[b.Len()-1] == '/' {
					b.WriteByte(' ')
				}
				b.Write(Padding(st.MidPad, st.PadKind))
			}
		}
		lay.TokPos[idx] = Pos{Offset: b.Len()}
		b.WriteString(t.Text)
	}
	switch {
	case st.Baseline || st.FinalNL == 1:
		b.WriteString("\n")
	case st.FinalNL == 2:
		b.WriteString("\r\n")
	case st.FinalNL == 3:
		b.WriteString("  /* end */")
	}
	lay.Text = b.Bytes()

	// line / column for every kept token
	line, col, off := 1, 1, 0
	next := 0
	for off <= len(lay.Text) && next < len(lay.Kept) {
		idx := lay.Kept[next]
		if lay.TokPos[idx].Offset == off {
			p := Pos{Offset: off, Line: line, Column: col}
			lay.TokPos[idx] = p
			lay.PosTok[p.String()] = idx
			next++
		}
		if off == len(lay.Text) {
			break
		}
		if lay.Text[off] == '\n' {
			line++
			col = 1
		} else {
			col++
		}
		off++
	}
	return lay
}

// ---- independent tokenizer, written from the token table in docs/5-definitions.md -------------

type lexRule struct {
	kind string
	re   *regexp.Regexp
}

var lexRules = []lexRule{
	{"WS", regexp.MustCompile(`^[\t ]+`)},
	{"EOL", regexp.MustCompile(`^[\n\r]+`)},
	{"COMMENT", regexp.MustCompile(`^//[\t\x20-\x7E]*`)},
	{"COMMENT", regexp.MustCompile(`^/\*([^*]|\*+[^*/])*\*+/`)},
	{"{{", regexp.MustCompile(`^\{\{`)},
	{"}}", regexp.MustCompile(`^\}\}`)},
	{"=", regexp.MustCompile(`^=`)}, {";", regexp.MustCompile(`^;`)}, {"|", regexp.MustCompile(`^\|`)},
	{"(", regexp.MustCompile(`^\(`)}, {")", regexp.MustCompile(`^\)`)},
	{"[", regexp.MustCompile(`^\[`)}, {"]", regexp.MustCompile(`^\]`)},
	{"{", regexp.MustCompile(`^\{`)}, {"}", regexp.MustCompile(`^\}`)},
	{"<", regexp.MustCompile(`^<`)}, {">", regexp.MustCompile(`^>`)},
	{"PREDEF", regexp.MustCompile(`^\$[A-Z][0-9A-Z_]*`)},
	{"@left", regexp.MustCompile(`^@left`)}, {"@right", regexp.MustCompile(`^@right`)}, {"@none", regexp.MustCompile(`^@none`)},
	{"grammar", regexp.MustCompile(`^grammar`)},
	{"IDENT", regexp.MustCompile(`^[a-z][0-9a-z_]*`)},
	{"TOKEN", regexp.MustCompile(`^[A-Z][0-9A-Z_]*`)},
	{"STRING", regexp.MustCompile(`^"([\x21\x23-\x5B\x5D-\x7E]|\\[\x21-\x7E])+"`)},
	{"REGEX", regexp.MustCompile(`^/([\x20-\x2E\x30-\x5B\x5D-\x7E]|\\[\x20-\x7E])*/`)},
}

// Tokenize splits text by longest match (first rule wins a tie: keywords before IDENT, comments
// before REGEX). It returns every lexeme, separators included, or an error offset.
func Tokenize(text []byte) ([]Lexeme, int) {
	var out []Lexeme
	off := 0
	for off < len(text) {
		best, bestKind := 0, ""
		for _, r := range lexRules {
			if loc := r.re.FindIndex(text[off:]); loc != nil && loc[1] > best {
				best, bestKind = loc[1], r.kind
			}
		}
		if best == 0 {
			return out, off
		}
		out = append(out, Lexeme{Kind: bestKind, Start: off, Len: best, Tok: -1})
		off += best
	}
	return out, -1
}

func IsSeparator(kind string) bool { return kind == "WS" || kind == "EOL" || kind == "COMMENT" }

// Check verifies the layout against the independent tokenizer: the significant lexemes must be
// exactly the kept tokens, at the recorded offsets. It also fills Layout.Lexemes.
// A failure is a harness bug, never a verdict.
func (l *Layout) Check(s *Spec) error {
	lex, bad := Tokenize(l.Text)
	if bad >= 0 {
		return fmt.Errorf("independent tokenizer stuck at offset %d (%q)", bad, excerpt(l.Text, bad))
	}
	k := 0
	for i := range lex {
		if IsSeparator(lex[i].Kind) {
			continue
		}
		if k >= len(l.Kept) {
			return fmt.Errorf("extra significant lexeme %s at %d", lex[i].Kind, lex[i].Start)
		}
		idx := l.Kept[k]
		t := s.Toks[idx]
		got := string(l.Text[lex[i].Start : lex[i].Start+lex[i].Len])
		if t.Kind != lex[i].Kind || t.Text != got || l.TokPos[idx].Offset != lex[i].Start {
			return fmt.Errorf("token %d: layout has %s %q at %d, tokenizer has %s %q at %d", idx, t.Kind, t.Text, l.TokPos[idx].Offset, lex[i].Kind, got, lex[i].Start)
		}
		lex[i].Tok = idx
		k++
	}
	if k != len(l.Kept) {
		return fmt.Errorf("tokenizer found %d significant lexemes, layout has %d", k, len(l.Kept))
	}
	l.Lexemes = lex
	return nil
}

func excerpt(b []byte, at int) string {
	lo, hi := at-10, at+10
	if lo < 0 {
		lo = 0
	}
	if hi > len(b) {
		hi = len(b)
	}
	return string(b[lo:hi])
}
