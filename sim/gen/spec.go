// Package gen holds the tape-driven workload generators: EBNF specifications as token lists,
// the layout engine that records positions itself, and an independent tokenizer.
package gen

import (
	"fmt"
	"strings"

	"github.com/gardenbed/emerge/zz_verif/simrt"
)

// Tok is one significant token of a specification.
type Tok struct {
	Kind string // terminal of the EBNF grammar: "grammar", "IDENT", "TOKEN", "STRING", "REGEX", "PREDEF", "=", ";", ...
	Text string // source text, including quotes / slashes
	// Removable is set on a ";" the documented grammar makes optional *in this context*
	// (after the grammar name, after a token declaration, after a directive that is followed by
	// an identifier, an @-keyword or the end of input).
	Removable bool
}

// Spec is a specification as a token list plus what the generator knows about it.
type Spec struct {
	Toks   []Tok
	Mode   string // valid | undefined_token | duplicate_def | duplicate_value | missing_start | undefined_nonterm | syntax_delete | syntax_insert
	NDecls int
}

var punct = map[string]bool{"=": true, ";": true, "|": true, "(": true, ")": true, "[": true, "]": true,
	"{": true, "}": true, "{{": true, "}}": true, "<": true, ">": true}

func IsPunct(kind string) bool { return punct[kind] }

// Wordy tokens need a separator between each other.
func IsWordy(kind string) bool {
	switch kind {
	case "IDENT", "TOKEN", "PREDEF", "grammar", "@left", "@right", "@none":
		return true
	}
	return false
}

var identPool = []string{"start", "expr", "term", "factor", "stmt", "list", "item", "opt_x", "a1", "body", "decl", "g", "gr", "gramma", "grammar_", "grammars", "e", "t0", "n_1", "args"}
var tokenPool = []string{"ID", "NUM", "STR", "WS", "EOL", "COMMENT", "OP", "KW_IF", "T0", "AB", "X_1", "LP", "RP", "PLUS", "MINUS"}
var litPool = []string{`"+"`, `"-"`, `"*"`, `"/"`, `"("`, `")"`, `"if"`, `"then"`, `"else"`, `","`, `";"`, `"="`, `"=="`, `"{"`, `"}"`, `"while"`, `"\""`, `"\\"`, `"a"`, `"::="`, `"|"`, `"<"`, `">"`, `"[x]"`, `"@left"`, `"grammar"`, `"//"`, `"/*"`}
var defLitPool = []string{`"let"`, `"fn"`, `"=>"`, `"->"`, `"begin"`, `"end"`, `"#"`, `"%%"`, `"0"`, `"nil"`}
var regexPool = []string{`/[a-z]+/`, `/[0-9]+/`, `/[A-Za-z_][0-9A-Za-z_]*/`, `/0x[0-9A-F]+/`, `/ab*c/`, `/(x|y)z/`, `/\d+/`, `/"[^"]*"/`, `/[ \t]+/`, `/\x41\x42/`, `/a{2,3}/`, `/[^a-c]x/`, `/\w+\s?/`, `/-?[0-9]+(\.[0-9]+)?/`, `/#[\x20-\x7E]*/`, `/\+\+/`, `/\[\]/`}
var predefPool = []string{"$WS", "$DIGIT", "$LETTER", "$ID", "$NUMBER", "$STRING", "$COMMENT"}

type GenOpts struct {
	ForceMode    string // produce exactly this seeded-defect mode
	AllowInvalid bool   // also produce seeded-defect variants
	MaxRules     int
	MaxDepth     int
}

type builder struct {
	t      *simrt.Tape
	toks   []Tok
	heads  []string
	tokens []string // declared token names
	lits   []string
	depth  int
	opts   GenOpts
}

func (b *builder) emit(kind, text string) { b.toks = append(b.toks, Tok{Kind: kind, Text: text}) }

func (b *builder) punct(p string) { b.emit(p, p) }

// GenSpec draws a specification. Smaller draws give fewer and simpler declarations.
func GenSpec(t *simrt.Tape, opts GenOpts) *Spec {
	if opts.MaxRules == 0 {
		opts.MaxRules = 5
	}
	if opts.MaxDepth == 0 {
		opts.MaxDepth = 3
	}
	b := &builder{t: t, opts: opts}
	mode := "valid"
	if opts.ForceMode != "" {
		mode = opts.ForceMode
		t.Draw(1)
	} else if opts.AllowInvalid && t.Chance(1, 4) {
		mode = []string{"undefined_token", "duplicate_def", "duplicate_value", "missing_start", "undefined_nonterm", "syntax_delete", "syntax_insert", "unknown_predef", "literal_equals_token_value", "literal_equals_token_value"}[t.Pick(10)]
	} else {
		t.Draw(1)
	}

	// name
	b.emit("grammar", "grammar")
	b.emit("IDENT", identPool[1+t.Pick(len(identPool)-1)])
	b.toks = append(b.toks, Tok{Kind: ";", Text: ";", Removable: true})

	// token declarations
	nTok := t.Draw(5)
	usedVals := map[string]bool{}
	var tokDecls [][]Tok
	perm := tokenOrder(t, len(tokenPool))
	for i := 0; i < nTok; i++ {
		name := tokenPool[perm[i]]
		b.tokens = append(b.tokens, name)
		var val Tok
		for tries := 0; ; tries++ {
			switch t.Draw(3) {
			case 0:
				val = Tok{Kind: "STRING", Text: defLitPool[t.Pick(len(defLitPool))]}
			case 1:
				val = Tok{Kind: "REGEX", Text: regexPool[t.Pick(len(regexPool))]}
			default:
				val = Tok{Kind: "PREDEF", Text: predefPool[t.Pick(len(predefPool))]}
			}
			if !usedVals[val.Text] || tries > 20 {
				break
			}
		}
		usedVals[val.Text] = true
		tokDecls = append(tokDecls, []Tok{{Kind: "TOKEN", Text: name}, {Kind: "=", Text: "="}, val, {Kind: ";", Text: ";", Removable: true}})
	}

	// heads
	b.heads = []string{"start"}
	nHeads := t.Draw(opts.MaxRules)
	hp := tokenOrder(t, len(identPool)-1)
	for i := 0; i < nHeads; i++ {
		b.heads = append(b.heads, identPool[1+hp[i]])
	}

	// rules: one per head, sometimes a second one for a head
	var ruleDecls [][]Tok
	for _, h := range b.heads {
		ruleDecls = append(ruleDecls, b.rule(h, true))
	}
	if t.Chance(1, 4) {
		ruleDecls = append(ruleDecls, b.rule(b.heads[t.Pick(len(b.heads))], true))
	} else {
		t.Draw(1)
	}

	// directives: handles are pairwise distinct across all levels
	nDir := t.Draw(3)
	var dirDecls [][]Tok
	usedHandle := map[string]bool{}
	for i := 0; i < nDir; i++ {
		var d []Tok
		d = append(d, Tok{Kind: []string{"@left", "@right", "@none"}[t.Draw(3)]})
		d[0].Text = d[0].Kind
		nH := 1 + t.Draw(3)
		for j := 0; j < nH; j++ {
			switch k := t.Draw(4); {
			case k <= 1:
				l := litPool[t.Pick(len(litPool))]
				if usedHandle[l] {
					continue
				}
				usedHandle[l] = true
				d = append(d, Tok{Kind: "STRING", Text: l})
			case k == 2 && len(b.tokens) > 0:
				n := b.tokens[t.Pick(len(b.tokens))]
				if usedHandle[n] {
					continue
				}
				usedHandle[n] = true
				d = append(d, Tok{Kind: "TOKEN", Text: n})
			default:
				h := b.heads[t.Pick(len(b.heads))]
				save := b.toks
				b.toks = nil
				r := b.rule(h, false)
				b.toks = save
				key := tokText(r)
				if usedHandle[key] {
					continue
				}
				usedHandle[key] = true
				d = append(d, Tok{Kind: "<", Text: "<"})
				d = append(d, r...)
				d = append(d, Tok{Kind: ">", Text: ">"})
			}
		}
		if len(d) == 1 {
			d = append(d, Tok{Kind: "STRING", Text: fmt.Sprintf(`"h%d"`, i)})
		}
		d = append(d, Tok{Kind: ";", Text: ";"}) // removability decided once the follower is known
		dirDecls = append(dirDecls, d)
	}

	// seeded defects that act on declarations
	switch mode {
	case "undefined_token":
		// reference a token that has no declaration
		r := []Tok{{Kind: "IDENT", Text: "start"}, {Kind: "=", Text: "="}, {Kind: "TOKEN", Text: "UNDEF_" + fmt.Sprint(t.Draw(3))}, {Kind: ";", Text: ";"}}
		ruleDecls = append(ruleDecls, r)
	case "duplicate_def":
		name := "DUP"
		if len(b.tokens) > 0 {
			name = b.tokens[0]
		} else {
			tokDecls = append(tokDecls, []Tok{{Kind: "TOKEN", Text: name}, {Kind: "=", Text: "="}, {Kind: "STRING", Text: `"dup1"`}, {Kind: ";", Text: ";", Removable: true}})
		}
		tokDecls = append(tokDecls, []Tok{{Kind: "TOKEN", Text: name}, {Kind: "=", Text: "="}, {Kind: "STRING", Text: `"dup2"`}, {Kind: ";", Text: ";", Removable: true}})
	case "duplicate_value":
		tokDecls = append(tokDecls, []Tok{{Kind: "TOKEN", Text: "DV1"}, {Kind: "=", Text: "="}, {Kind: "STRING", Text: `"same"`}, {Kind: ";", Text: ";", Removable: true}})
		tokDecls = append(tokDecls, []Tok{{Kind: "TOKEN", Text: "DV2"}, {Kind: "=", Text: "="}, {Kind: "STRING", Text: `"same"`}, {Kind: ";", Text: ";", Removable: true}})
	case "missing_start":
		for i := range ruleDecls {
			for j := range ruleDecls[i] {
				if ruleDecls[i][j].Kind == "IDENT" && ruleDecls[i][j].Text == "start" {
					ruleDecls[i][j].Text = "strt"
				}
			}
		}
		for i := range dirDecls {
			for j := range dirDecls[i] {
				if dirDecls[i][j].Kind == "IDENT" && dirDecls[i][j].Text == "start" {
					dirDecls[i][j].Text = "strt"
				}
			}
		}
	case "undefined_nonterm":
		r := []Tok{{Kind: "IDENT", Text: "start"}, {Kind: "=", Text: "="}, {Kind: "IDENT", Text: "nowhere"}, {Kind: ";", Text: ";"}}
		ruleDecls = append(ruleDecls, r)
	case "literal_equals_token_value":
		// a named token whose value is also used as a literal in a rule (two definitions, one without a position)
		lit := litPool[t.Pick(len(litPool))]
		tokDecls = append(tokDecls, []Tok{{Kind: "TOKEN", Text: "LV"}, {Kind: "=", Text: "="}, {Kind: "STRING", Text: lit}, {Kind: ";", Text: ";", Removable: true}})
		ruleDecls = append(ruleDecls, []Tok{{Kind: "IDENT", Text: "start"}, {Kind: "=", Text: "="}, {Kind: "STRING", Text: lit}, {Kind: "TOKEN", Text: "LV"}, {Kind: ";", Text: ";"}})
	case "unknown_predef":
		tokDecls = append(tokDecls, []Tok{{Kind: "TOKEN", Text: "UP"}, {Kind: "=", Text: "="}, {Kind: "PREDEF", Text: "$NOPE"}, {Kind: ";", Text: ";", Removable: true}})
	}

	// interleave declarations in a drawn order
	var decls [][]Tok
	ti, di, ri := 0, 0, 0
	for ti < len(tokDecls) || di < len(dirDecls) || ri < len(ruleDecls) {
		k := t.Draw(3)
		for n := 0; n < 3; n++ {
			kk := (k + n) % 3
			if kk == 0 && ti < len(tokDecls) {
				decls = append(decls, tokDecls[ti])
				ti++
				break
			}
			if kk == 1 && ri < len(ruleDecls) {
				decls = append(decls, ruleDecls[ri])
				ri++
				break
			}
			if kk == 2 && di < len(dirDecls) {
				decls = append(decls, dirDecls[di])
				di++
				break
			}
		}
	}
	for i, d := range decls {
		// a directive's semicolon is removable iff the follower cannot continue the handle list
		if strings.HasPrefix(d[0].Kind, "@") {
			next := ""
			if i+1 < len(decls) {
				next = decls[i+1][0].Kind
			}
			if next == "" || next == "IDENT" || strings.HasPrefix(next, "@") {
				d[len(d)-1].Removable = true
			}
		}
		b.toks = append(b.toks, d...)
	}

	// seeded syntax errors act on the token list
	switch mode {
	case "syntax_delete":
		if len(b.toks) > 3 {
			i := 2 + t.Draw(len(b.toks)-2)
			b.toks = append(b.toks[:i:i], b.toks[i+1:]...)
			for j := range b.toks {
				b.toks[j].Removable = false
			}
		}
	case "syntax_insert":
		i := 2 + t.Draw(len(b.toks)-1)
		ins := []Tok{{Kind: ")", Text: ")"}, {Kind: "=", Text: "="}, {Kind: ">", Text: ">"}, {Kind: "]", Text: "]"}, {Kind: "PREDEF", Text: "$WS"}}[t.Draw(5)]
		nt := append([]Tok(nil), b.toks[:i]...)
		nt = append(nt, ins)
		nt = append(nt, b.toks[i:]...)
		b.toks = nt
		for j := range b.toks {
			b.toks[j].Removable = false
		}
	}
	return &Spec{Toks: b.toks, Mode: mode, NDecls: len(decls)}
}

func tokText(ts []Tok) string {
	var sb strings.Builder
	for _, t := range ts {
		sb.WriteString(t.Text)
		sb.WriteByte(' ')
	}
	return sb.String()
}

// tokenOrder draws a permutation prefix lazily: a full Fisher-Yates over n with tape draws.
func tokenOrder(t *simrt.Tape, n int) []int {
	p := make([]int, n)
	for i := range p {
		p[i] = i
	}
	for i := 0; i < n-1 && i < 8; i++ {
		j := i + t.Draw(n-i)
		p[i], p[j] = p[j], p[i]
	}
	return p
}

// rule emits `head = rhs ;` (withSemi) or `head = rhs` and returns its tokens.
func (b *builder) rule(head string, withSemi bool) []Tok {
	save := b.toks
	b.toks = nil
	b.emit("IDENT", head)
	b.punct("=")
	if !b.t.Chance(1, 8) { // 1/8: empty production
		b.depth = 0
		b.rhs()
	}
	if withSemi {
		b.punct(";")
	}
	out := b.toks
	b.toks = save
	return out
}

func (b *builder) rhs() {
	nAlt := 1 + b.t.Draw(3)
	for a := 0; a < nAlt; a++ {
		if a > 0 {
			b.punct("|")
		}
		nItems := 1 + b.t.Draw(3)
		for i := 0; i < nItems; i++ {
			b.item()
		}
	}
	if b.t.Chance(1, 6) {
		b.punct("|") // trailing empty alternative
	}
}

func (b *builder) item() {
	k := b.t.Draw(9)
	if b.depth >= b.opts.MaxDepth && k >= 5 {
		k = k % 5
	}
	switch {
	case k <= 1:
		b.emit("IDENT", b.heads[b.t.Pick(len(b.heads))])
	case k <= 3:
		b.emit("STRING", litPool[b.t.Pick(len(litPool))])
	case k == 4:
		if len(b.tokens) > 0 {
			b.emit("TOKEN", b.tokens[b.t.Pick(len(b.tokens))])
		} else {
			b.emit("STRING", litPool[b.t.Pick(len(litPool))])
		}
	default:
		open, close := "(", ")"
		switch k {
		case 6:
			open, close = "[", "]"
		case 7:
			open, close = "{", "}"
		case 8:
			open, close = "{{", "}}"
		}
		b.depth++
		b.punct(open)
		b.rhs()
		b.punct(close)
		b.depth--
	}
}
