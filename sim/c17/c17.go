// Package c17 decides property C17: processing a specification or a pattern is a pure function of
// the text - unaffected by what was processed earlier in the same process (histories) or
// concurrently on other goroutines (schedules) - and concurrent use performs no unsynchronised
// access to shared mutable state. Schedules are decided by the tape (simsched); the binary is
// built with -race and the race detector serves as the access monitor.
package c17

import (
	"encoding/json"
	"fmt"
	"os"
	"os/exec"
	"path/filepath"
	"sort"
	"strings"
	"sync"
	"time"

	"github.com/gardenbed/charm/ui"
	auto "github.com/moorara/algo/automata"

	"github.com/gardenbed/emerge/internal/ebnf/parser/ast"
	"github.com/gardenbed/emerge/internal/ebnf/parser/spec"
	"github.com/gardenbed/emerge/internal/generate/golang"
	regexast "github.com/gardenbed/emerge/internal/regex/parser/ast"
	"github.com/gardenbed/emerge/internal/regex/parser/nfa"
	"github.com/gardenbed/emerge/zz_verif/gen"
	"github.com/gardenbed/emerge/zz_verif/simrt"
	"github.com/gardenbed/emerge/zz_verif/simsched"
	"github.com/gardenbed/emerge/zz_verif/simsched/simsync"
	simctl "github.com/moorara/algo/zz_simctl"
)

type Engine struct {
	FixtureDir string
	IsoTable   string // file with the isolated reference results (one fresh process per operation)
	RaceLog    string // GORACE log_path prefix
}

func (Engine) ID() string { return "C17" }

func (Engine) Meta() simrt.Meta {
	return simrt.Meta{
		Level: "exploration",
		Rule: "a case = either a history (2-8 operations on different specifications/patterns executed in tape order in one process) or a schedule (2-4 workers with their own operation lists interleaved by the simulated scheduler at yield points: every function entry and every statement touching a package-level variable in emerge's packages); an evaluation = one operation whose result is compared with the isolated reference (fresh process); " +
			"distinct_nontrivial counts distinct schedules (hash of the switch sequence together with the operation lists), distinct histories (ordered operation lists) and distinct (site before switch, site after switch) pairs adjacent across a context switch; a schedule is non-trivial iff it contains at least one context switch between two unfinished workers",
		Assumptions: []string{
			"Go toolchain and race detector (bounded per-word access history); raw-syscall pipe hand-off in //go:norace functions creates no happens-before edge (checked by the engine's self-test: a planted unsynchronised counter must be reported, a mutex-protected one must not)",
			"dependency code between two emerge yield points runs atomically with respect to other workers: interleavings inside dependency calls are not explored for the result oracle (their races are reported by the monitor regardless of interleaving)",
			"the isolated reference is the same operation as the first work of a fresh process",
			"race reports are classified by the first frame inside module code of each of the two accesses; reports whose frames are all inside the listed dependency packages are known findings",
		},
		RealCode:           []string{"internal/ebnf/parser/spec (Parse, DFA, LALRParsingTable)", "internal/ebnf/parser/ast", "internal/regex/parser (nfa, ast, ToDFA)", "internal/ebnf/lexer, parser", "moorara/algo"},
		Stubs:              []string{"goroutine scheduling (simsched: tape-chosen worker at every yield point)", "io.Reader (strings.Reader)"},
		FaultKinds:         []string{"context_switches", "preempt_at_global_access", "history_after_rejected_input"},
		CaseTimeout:        300 * time.Second,
		FreshProcessShrink: true,
	}
}

// ---- operations --------------------------------------------------------------------------------

type Op struct {
	Kind string `json:"kind"` // spec | spec_dfa | spec_lalr | ast | nfa | regex_dfa | generate
	Text string `json:"text"`
	// Dir is the private, empty output directory of a generate operation. It is handed out by the
	// main goroutine before the operation runs (a worker must not touch harness state that
	// synchronises: that would add happens-before edges the code under test does not have).
	Dir string `json:"-"`
}

var genDirSeq int

// withDir gives a generate operation its own fresh output directory on the real file system.
func (e Engine) withDir(o Op) Op {
	if o.Kind != "generate" {
		return o
	}
	root := os.Getenv("VERIF_GEN_ROOT")
	if root == "" {
		root = os.TempDir()
	}
	genDirSeq++
	o.Dir = filepath.Join(root, fmt.Sprintf("gen-%d-%d", os.Getpid(), genDirSeq))
	if err := os.MkdirAll(o.Dir, 0o755); err != nil {
		panic("cannot create the output directory of a generate operation: " + err.Error())
	}
	return o
}

func (o Op) key() string { return o.Kind + "\x00" + o.Text }

var patterns = []string{`[a-z]+`, `[0-9]+`, `(x|y)*z`, `[A-Za-z_][0-9A-Za-z_]*`, `a{2,3}b?`, `\d+(\.\d+)?`, `[^a-c]x`, `"[^"]*"`, `[z-a]`, `(`, `\w+\s`}

// Pool is the fixed operation pool (the isolated references are computed once per check run).
func (e Engine) Pool() []Op {
	var texts []string
	for i := 0; i < 14; i++ {
		t := simrt.NewTape(simrt.Mix(17, uint64(i)))
		cls := gen.InputClasses[i%len(gen.InputClasses)]
		_, txt := gen.GenInput(t, cls)
		if txt != "" {
			texts = append(texts, txt)
		}
	}
	for i := 0; i < 8; i++ {
		t := simrt.NewTape(simrt.Mix(1717, uint64(i)))
		s := gen.GenSpec(t, gen.GenOpts{AllowInvalid: i%2 == 1, MaxRules: 3})
		texts = append(texts, string(gen.Render(s, gen.Style{Baseline: true}).Text))
	}
	if b, err := os.ReadFile(filepath.Join(e.FixtureDir, "test.success.grammar")); err == nil {
		texts = append(texts, string(b))
	}
	seen := map[string]bool{}
	var pool []Op
	add := func(o Op) {
		if !seen[o.key()] {
			seen[o.key()] = true
			pool = append(pool, o)
		}
	}
	for i, t := range texts {
		add(Op{Kind: "spec", Text: t})
		add(Op{Kind: "ast", Text: t})
		if i%2 == 0 {
			add(Op{Kind: "spec_dfa", Text: t})
		}
		if i < 10 {
			add(Op{Kind: "spec_lalr", Text: t})
		}
	}
	for _, p := range patterns {
		add(Op{Kind: "nfa", Text: p})
		add(Op{Kind: "regex_dfa", Text: p})
	}
	// generated patterns (atoms, bracket groups, quantifiers, one-edit mutations: many are rejected
	// in different ways, some with more than one problem at once)
	for i := 0; i < 60; i++ {
		p, _ := gen.GenPattern(simrt.NewTape(simrt.Mix(171717, uint64(i))))
		if len(p) > 0 && len(p) < 24 {
			add(Op{Kind: "nfa", Text: p})
			if i%3 == 0 {
				add(Op{Kind: "regex_dfa", Text: p})
			}
		}
	}
	for _, p := range []string{"[9-0", "a{4,2}(", "[z-a][", "x{3,1}|(", "[a-z]+", "[b-a]"} {
		add(Op{Kind: "nfa", Text: p})
		add(Op{Kind: "regex_dfa", Text: p})
	}
	for i := 0; i < 6; i++ {
		add(Op{Kind: "spec_dfa", Text: gen.GenMultiDiag(simrt.NewTape(simrt.Mix(1715, uint64(i))))})
	}
	for _, o := range collisionOps() {
		add(o)
	}
	for _, o := range generateOps() {
		add(o)
	}
	for _, o := range nameOps() {
		add(o)
	}
	for _, o := range polarityOps() {
		add(o)
	}
	for _, o := range featureOps() {
		add(o)
	}
	for _, o := range poisonOps() {
		add(o)
	}
	// a schedule may run the cheaper "spec" stage of any specification operation: close the pool under that
	for _, o := range append([]Op(nil), pool...) {
		if o.Kind == "spec_lalr" || o.Kind == "spec_dfa" {
			add(Op{Kind: "spec", Text: o.Text})
		}
	}
	return pool
}

// collisionOps are specifications that share something a cache could be keyed by - the text of a
// definition (as a string in one, as a pattern in the other), a token name with different values,
// values of equal length or with a common prefix - while meaning different things.
func collisionOps() []Op {
	var out []Op
	for _, v := range []string{".", "a.b", "x*", "[ab]", "a|b", "((", "a+"} {
		out = append(out,
			Op{Kind: "spec_dfa", Text: "grammar lit;\nID = /[a-z]+/;\nstart = ID \"" + v + "\" ID;\n"},
			Op{Kind: "spec_dfa", Text: "grammar pat;\nANY = /" + v + "/;\nNUM = /[0-9]+/;\nstart = NUM ANY;\n"},
			Op{Kind: "spec_dfa", Text: "grammar tok;\nDOT = \"" + v + "\";\nstart = DOT DOT;\n"})
	}
	out = append(out,
		Op{Kind: "spec_dfa", Text: "grammar n1;\nNUM = /[0-9]+/;\nstart = NUM;\n"},
		Op{Kind: "spec_dfa", Text: "grammar n2;\nNUM = /[0-7]+/;\nstart = NUM;\n"},
		Op{Kind: "spec_dfa", Text: "grammar n3;\nNUM = \"0\";\nstart = NUM;\n"},
		Op{Kind: "spec_lalr", Text: "grammar n1;\nNUM = /[0-9]+/;\nstart = NUM;\n"},
		Op{Kind: "spec_lalr", Text: "grammar n1;\nNUM = /[0-9]+/;\nstart = NUM NUM;\n"})
	return out
}

// generateOps run the whole pipeline - parse, scanner automaton, LALR table, templates - and write a
// package into a private directory of the real file system (small grammars: the dependency's LALR
// construction is slow under the race detector).
func generateOps() []Op {
	texts := []string{
		"grammar n1;\nNUM = /[0-9]+/;\nstart = NUM;\n",
		"grammar n1;\nNUM = /[0-7]+/;\nstart = NUM NUM;\n",
		"grammar lit;\nID = /[a-z]+/;\nstart = ID \".\" ID;\n",
		"grammar bad;\nstart = ID;\n",
		"grammar opt;\nID = /[a-z]+/;\nstart = ID [ \",\" ID ] \";\";\n",
		"grammar rep;\nNUM = $INT;\nstart = \"(\" { NUM \",\" } \")\";\n",
		"grammar plus;\nWORD = /[A-Z][a-z]*/;\nstart = {{ WORD }} \".\";\n",
		"grammar alt;\nstart = \"if\" cond | \"else\";\ncond = \"x\" | \"y\" | ;\n",
		"grammar prec;\nNUM = /[0-9]+/;\n@left \"+\";\n@left \"*\";\nstart = start \"+\" start | start \"*\" start | NUM;\n",
		"grammar str;\nSTR = $STRING;\nWS = /[ \\t]+/;\nstart = STR { STR };\n",
		"grammar conf;\nAA = /a+/;\nBB = /a*b?/;\nstart = AA BB;\n",
		"grammar amb;\nstart = start start | \"a\";\n",
	}
	var out []Op
	for _, t := range texts {
		out = append(out, Op{Kind: "generate", Text: t})
	}
	return out
}

// nameOps are specifications whose rule names coincide with words an implementation is likely to
// use internally (the names of punctuation marks, the shape of generated rule names), together
// with specifications that make it generate rules for exactly those punctuation marks: a table of
// names that one run edits, or a name handed out twice, shows as a different grammar in a later run.
func nameOps() []Op {
	var out []Op
	names := [][2]string{{"comma", ","}, {"semi", ";"}, {"star", "*"}, {"plus", "+"}, {"dot", "."}, {"dash", "-"}, {"lparen", "("}, {"colon", ":"}, {"bar", "|"}, {"equal", "="}}
	groups := "grammar grp;\nID = /[a-z]+/;\nstart = ID"
	groups2 := "grammar rep;\nstart = \"a\""
	for i, nl := range names {
		out = append(out, Op{Kind: "spec", Text: "grammar nm;\nstart = " + nl[0] + " " + nl[0] + ";\n" + nl[0] + " = \"x\" | " + nl[0] + " \"y\";\n"})
		if i%3 == 0 {
			out = append(out, Op{Kind: "spec", Text: "grammar gn;\nstart = gen_" + nl[0] + "_opt gen1_opt;\ngen_" + nl[0] + "_opt = \"y\";\ngen1_opt = \"z\";\n"})
		}
		groups += " [ \"" + nl[1] + "\" ]"
		groups2 += " { \"" + nl[1] + "\" } {{ \"" + nl[1] + "\" }} ( \"" + nl[1] + "\" )"
	}
	out = append(out,
		Op{Kind: "spec", Text: groups + ";\n"},
		Op{Kind: "spec", Text: groups2 + ";\n"},
		Op{Kind: "spec", Text: "grammar mix;\nID = /[a-z]+/;\nstart = ID [ \",\" ID ] [ \";\" ] { \"*\" \"+\" } ( \".\" | \"-\" );\n"})
	return out
}

// polarityOps are patterns in pairs that differ only in polarity or in one detail of a class - the
// positive and the negated form of every class notation, a range and its complement, the same
// category under two spellings - as bare patterns and inside token definitions: whatever is
// memoised per class must not confuse the two.
var polarityPairs = [][2]string{
	{`\d+x`, `\D+x`}, {`\s`, `\S`}, {`\w+`, `\W+`},
	{`\p{Lu}+`, `\P{Lu}+`}, {`\p{Greek}`, `\P{Greek}`}, {`\p{L}`, `\P{L}`}, {`\p{Lu}`, `\p{Ll}`},
	{`\p{Latin}+`, `\P{Latin}+`}, {`\p{Cyrillic}`, `\P{Cyrillic}`}, {`\p{Nd}`, `\P{Nd}`},
	{`[[:alpha:]]+`, `[^[:alpha:]]+`}, {`[[:digit:]]`, `[[:xdigit:]]`}, {`[a-c]`, `[^a-c]`}, {`[\d]`, `[^\d]`},
	{`a.b`, `a\.b`}, {`x{2,3}`, `x{3,2}`}, {`(ab)+`, `(ab)*`},
}

// polarityPair returns the operations of one pair: both members as bare patterns (both back ends)
// and inside token definitions.
func polarityPair(i int) []Op {
	var out []Op
	for j, p := range polarityPairs[i%len(polarityPairs)] {
		out = append(out, Op{Kind: "nfa", Text: p}, Op{Kind: "regex_dfa", Text: p})
		if i%2 == 0 || j == 1 {
			out = append(out, Op{Kind: "spec_dfa", Text: "grammar pol;\nWORD = /" + p + "/;\nstart = WORD \"!\" WORD;\n"})
		}
	}
	return out
}

func polarityOps() []Op {
	var out []Op
	for i := range polarityPairs {
		out = append(out, polarityPair(i)...)
	}
	return out
}

// Rejected inputs (several of them with two problems at once, so that one error may be reported and
// another left behind) and accepted inputs of the same kind: a rejected input must not poison the
// next accepted one, sequentially or on a neighbouring goroutine.
var badPatterns = []string{"[9-0", "a{4,2}(", "[z-a][", "x{3,1}|(", "(", "[z-a]", "a{3,1}", "[[:nope:]]x", `\p{Nope}`, "a)", "[a", `\xZZ`}
var goodPatterns = []string{"[a-z]+", "[0-9]+", "a{2,3}", "(x|y)*z", `\d+`, "[^a-c]x", "a.b", `\w+\s`}
var badSpecs = []string{
	"grammar b1;\nTK = /[z-a]/;\nstart = TK;\n",
	"grammar b2;\nAA = /a{3,1}(/;\nstart = AA;\n",
	"grammar b3;\nAA = /[a-z]+/;\nBB = /[a-c]+/;\nstart = AA BB UNDEF;\n",
	"grammar b4;\nstart = = ;\n",
	"grammar b5;\nNUM = /[0-9]+/;\nNUM = /[0-9]/;\nstart = NUM other;\n",
	"grammar b6;\nAA = $NOPE;\nstart = AA [ \"x\" \"y\" ] (\n",
}
var goodSpecs = []string{
	"grammar g1;\nID = /[a-z]+/;\nstart = ID [ \",\" ID ] ( \"x\" \"y\" );\n",
	"grammar g2;\nNUM = /[0-9]+/;\nstart = NUM { \"+\" NUM };\n",
	"grammar g3;\nSTR = $STRING;\nstart = STR | \"nil\";\n",
	"grammar g4;\nAA = /ab*/;\nstart = {{ AA \";\" }};\n",
}

// poisonList is the i-th fixed sequence rejected, accepted, rejected, accepted, ... of one kind.
func poisonList(i int) []Op {
	kind := []string{"nfa", "regex_dfa", "spec_dfa", "nfa", "spec", "regex_dfa"}[i%6]
	bad, good := badPatterns, goodPatterns
	if kind == "spec_dfa" || kind == "spec" {
		bad, good = badSpecs, goodSpecs
	}
	var out []Op
	for j := 0; j < 3; j++ {
		out = append(out, Op{Kind: kind, Text: bad[(i+j*5)%len(bad)]}, Op{Kind: kind, Text: good[(i*3+j)%len(good)]})
	}
	return out
}

func poisonOps() []Op {
	var out []Op
	for _, k := range []string{"nfa", "regex_dfa"} {
		for _, p := range append(append([]string{}, badPatterns...), goodPatterns...) {
			out = append(out, Op{Kind: k, Text: p})
		}
	}
	for _, k := range []string{"spec", "spec_dfa"} {
		for _, p := range append(append([]string{}, badSpecs...), goodSpecs...) {
			out = append(out, Op{Kind: k, Text: p})
		}
	}
	return out
}

const nPoison = 18

// featureOps is a list of operations that between them use every notation once: what is built
// lazily for a notation is built by the first operation of a process that uses it.
func featureOps() []Op {
	var out []Op
	for _, p := range []string{`a.b`, `\d+\w`, `[[:alpha:]]\s`, `\p{Greek}x`, `\P{Lu}`, `[^a-c]+`, `x{2,3}(y|z)*`, `\x41[\x30-\x39]`, `"[^"]*"`} {
		out = append(out, Op{Kind: "nfa", Text: p}, Op{Kind: "regex_dfa", Text: p})
	}
	out = append(out,
		Op{Kind: "spec_dfa", Text: "grammar f1;\nID = $ID;\nSTR = $STRING;\nNUM = $NUMBER;\nstart = ID \"=\" ( STR | NUM );\n"},
		Op{Kind: "spec_dfa", Text: "grammar f2;\nANY = /./;\nWS = $WS;\nstart = ANY { \",\" ANY };\n"},
		Op{Kind: "spec", Text: "grammar f3;\n@left \"+\" \"-\";\n@right <start \"^\" start>;\nstart = start \"+\" start | start \"-\" start | start \"^\" start | [ \"(\" ] {{ \"x\" }} ;\n"},
		Op{Kind: "spec_lalr", Text: "grammar f4;\nNUM = /[0-9]+/;\n@left \"*\";\nstart = start \"*\" start | NUM;\n"},
		Op{Kind: "ast", Text: "grammar f5;\nID = /[a-z]+/;\nstart = ID [ \",\" ID ] { \";\" } ( \"a\" | \"b\" );\n"},
		Op{Kind: "generate", Text: "grammar n1;\nNUM = /[0-9]+/;\nstart = NUM;\n"})
	return out
}

// hotOps is a short list of representative operations per family; every element is in the pool.
func (e Engine) hotOps(family int) []Op {
	var out []Op
	if family == 0 {
		for _, p := range []string{`[a-z]+`, `[0-9]+`, `[^a-c]x`, `a{2,3}b?`, `(x|y)*z`, `\d+(\.\d+)?`, `[A-Za-z_][0-9A-Za-z_]*`} {
			out = append(out, Op{Kind: "nfa", Text: p}, Op{Kind: "regex_dfa", Text: p})
		}
		return out
	}
	if family == 2 {
		return collisionOps()
	}
	if family == 3 {
		return generateOps()
	}
	if family == 4 {
		return nameOps()
	}
	if family == 5 {
		return polarityOps()
	}
	pool := e.Pool()
	n := 0
	for _, o := range pool {
		if (o.Kind == "spec_dfa" || o.Kind == "spec") && n < 10 {
			out = append(out, o)
			n++
		}
	}
	return out
}

func canonErr(err error) string {
	lines := strings.Split(err.Error(), "\n")
	for i := range lines {
		lines[i] = strings.TrimSpace(lines[i])
	}
	sort.Strings(lines)
	return "ERROR\n" + strings.Join(lines, "\n")
}

func canonDFA(d *auto.DFA) string {
	var xs []string
	for tr := range d.Transitions() {
		xs = append(xs, fmt.Sprintf("%d --%d--> %d", tr.State, tr.Symbol, tr.Next))
	}
	sort.Strings(xs)
	var fs []string
	for f := range d.Final.All() {
		fs = append(fs, fmt.Sprint(f))
	}
	sort.Strings(fs)
	return fmt.Sprintf("start=%d finals=%v\n%s", d.Start, fs, strings.Join(xs, "\n"))
}

func canonSpec(sp *spec.Spec) string {
	var xs []string
	for t := range sp.Grammar.Terminals.All() {
		xs = append(xs, "T "+t.String())
	}
	for n := range sp.Grammar.NonTerminals.All() {
		xs = append(xs, "N "+n.String())
	}
	for p := range sp.Grammar.Productions.All() {
		xs = append(xs, "P "+p.String())
	}
	for _, d := range sp.Definitions {
		pos := "nopos"
		if d.Pos != nil {
			pos = d.Pos.String()
		}
		xs = append(xs, fmt.Sprintf("D %s value=%q regex=%v pos=%s", d.Terminal, d.Value, d.IsRegex, pos))
	}
	sort.Strings(xs)
	return fmt.Sprintf("SPEC name=%s start=%s\n%s\nPRECEDENCES\n%s", sp.Name, sp.Grammar.Start, strings.Join(xs, "\n"), sp.Precedences.String())
}

// canonTree is the canonical text of a generated package: every file by name; inside a file the
// lines are sorted and the comma-separated items of a line are sorted, so that an output whose
// ORDER depended on something (property C15's matter) is not mistaken for interference, while
// missing, extra, foreign or garbled content is.
func canonTree(dir string) string {
	var files []string
	_ = filepath.Walk(dir, func(p string, info os.FileInfo, err error) error {
		if err == nil && !info.IsDir() {
			files = append(files, p)
		}
		return nil
	})
	sort.Strings(files)
	var b strings.Builder
	for _, f := range files {
		data, _ := os.ReadFile(f)
		lines := strings.Split(string(data), "\n")
		for i, l := range lines {
			items := strings.Split(l, ", ")
			sort.Strings(items)
			lines[i] = strings.Join(items, ", ")
		}
		sort.Strings(lines)
		rel, _ := filepath.Rel(dir, f)
		fmt.Fprintf(&b, "FILE %s bytes=%d\n%s\n", rel, len(data), strings.Join(lines, "\n"))
	}
	return b.String()
}

// Raw is the uncanonicalised outcome of one operation. Workers only produce Raw values; turning
// them into canonical strings (fmt, sort - which synchronise through sync.Pool and would add
// happens-before edges between workers that the code under test does not have) is done by the
// main goroutine after the join.
type Raw struct {
	op     Op
	panicV any
	err    error // error of the first stage (parse)
	sp     *spec.Spec
	dfa    *auto.DFA
	tm     map[string][]int
	dfaErr error
	lalr   string // "", "ok" or "err"
	lalrE  error
	g      *ast.Grammar
	d2     *auto.DFA
	genErr error
}

// ExecRaw runs one operation.
func ExecRaw(o Op) (r *Raw) {
	r = &Raw{op: o}
	defer func() {
		if p := recover(); p != nil {
			r.panicV = p
		}
	}()
	switch o.Kind {
	case "spec", "spec_dfa", "spec_lalr", "generate":
		r.sp, r.err = spec.Parse("op.grammar", strings.NewReader(o.Text))
		if r.err != nil {
			return
		}
		if o.Kind == "generate" {
			if o.Dir == "" {
				panic("generate operation without an output directory")
			}
			r.genErr = golang.Generate(ui.NewNop(), &golang.Params{Path: o.Dir, Spec: r.sp})
		}
		if o.Kind == "spec_dfa" {
			d, tm, err := r.sp.DFA()
			r.dfa, r.dfaErr = d, err
			if err == nil {
				r.tm = map[string][]int{}
				for t, ss := range tm {
					for _, s := range ss {
						r.tm[string(t)] = append(r.tm[string(t)], int(s))
					}
				}
			}
		}
		if o.Kind == "spec_lalr" {
			n := 0
			for range r.sp.Grammar.Productions.All() {
				n++
			}
			if n <= 12 {
				if _, err := r.sp.LALRParsingTable(); err != nil {
					r.lalr, r.lalrE = "err", err
				} else {
					r.lalr = "ok"
				}
			}
		}
	case "ast":
		r.g, r.err = ast.Parse("op.grammar", strings.NewReader(o.Text))
	case "nfa":
		n, err := nfa.Parse(o.Text)
		r.err = err
		if err == nil {
			r.d2 = n.ToDFA().Minimize().EliminateDeadStates().ReindexStates()
		}
	case "regex_dfa":
		a, err := regexast.Parse(o.Text)
		r.err = err
		if err == nil {
			r.d2 = a.ToDFA().Minimize().EliminateDeadStates().ReindexStates()
		}
	default:
		panic("unknown op kind " + o.Kind)
	}
	return
}

// Canon turns a raw outcome into its canonical text.
func Canon(r *Raw) (out string) {
	defer func() {
		if p := recover(); p != nil {
			out = fmt.Sprintf("PANIC(canon) %v", p)
		}
	}()
	if r.panicV != nil {
		return fmt.Sprintf("PANIC %v", r.panicV)
	}
	if r.err != nil {
		return canonErr(r.err)
	}
	switch r.op.Kind {
	case "generate":
		// the Spec handed to the generator may legitimately be completed by it (e.g. its name); what
		// counts here is what was written
		if r.genErr != nil {
			return "GENERATE " + canonErr(r.genErr)
		}
		return "GENERATE ok\n" + canonTree(r.op.Dir)
	case "spec", "spec_dfa", "spec_lalr":
		out = canonSpec(r.sp)
		if r.op.Kind == "spec_dfa" {
			if r.dfaErr != nil {
				return out + "\nDFA " + canonErr(r.dfaErr)
			}
			var ts []string
			for t, ss := range r.tm {
				xs := append([]int(nil), ss...)
				sort.Ints(xs)
				ts = append(ts, fmt.Sprintf("%s=%v", t, xs))
			}
			sort.Strings(ts)
			out += "\nDFA " + canonDFA(r.dfa) + "\nTERMS " + strings.Join(ts, " ")
		}
		switch r.lalr {
		case "ok":
			out += "\nLALR ok"
		case "err":
			out += "\nLALR " + canonErr(r.lalrE)
		}
		return out
	case "ast":
		return fmt.Sprintf("AST %s decls=%d", r.g.String(), len(r.g.Decls))
	case "nfa":
		return "NFA->DFA " + canonDFA(r.d2)
	case "regex_dfa":
		return "AST->DFA " + canonDFA(r.d2)
	}
	return "?"
}

// Exec runs one operation and returns its canonical result.
func (e Engine) Exec(o Op) string {
	o = e.withDir(o)
	defer cleanDir(o)
	return Canon(ExecRaw(o))
}

func cleanDir(o Op) {
	if o.Dir != "" {
		os.RemoveAll(o.Dir)
	}
}

// BuildIsoTable computes the isolated reference of every pool operation in a fresh process each.
func (e Engine) BuildIsoTable(path string) error {
	exe, err := os.Executable()
	if err != nil {
		return err
	}
	table := map[string]string{}
	pool := e.Pool()
	outs := make([]string, len(pool))
	errs := make([]error, len(pool))
	// one fresh process per operation, sixteen at a time (each process is isolated from the others)
	sem := make(chan struct{}, 16)
	var wg sync.WaitGroup
	for i, o := range pool {
		wg.Add(1)
		sem <- struct{}{}
		go func(i int, o Op) {
			defer wg.Done()
			defer func() { <-sem }()
			b, _ := json.Marshal(o)
			cmd := exec.Command(exe, "-iso-op", string(b))
			cmd.Env = append(os.Environ(), "GORACE=log_path="+path+".isorace exitcode=0")
			out, err := cmd.Output()
			if err != nil {
				errs[i] = fmt.Errorf("isolated run of pool op %d failed: %v", i, err)
				return
			}
			outs[i] = string(out)
		}(i, o)
	}
	wg.Wait()
	for i, o := range pool {
		if errs[i] != nil {
			return errs[i]
		}
		table[o.key()] = outs[i]
	}
	b, _ := json.Marshal(table)
	return os.WriteFile(path, b, 0o644)
}

var isoCache map[string]string

func (e Engine) iso(o Op) string {
	if isoCache == nil {
		b, err := os.ReadFile(e.IsoTable)
		if err != nil {
			panic("isolated reference table: " + err.Error())
		}
		if err := json.Unmarshal(b, &isoCache); err != nil {
			panic(err)
		}
	}
	v, ok := isoCache[o.key()]
	if !ok {
		panic("operation not in the isolated reference table")
	}
	return v
}

// ---- plan ---------------------------------------------------------------------------------------

const (
	kHistory = iota
	kSchedule
	kSelfTest
	kPairs // few workers on a short list of representative operations of one family, finely interleaved
	kFresh // two or three workers doing the SAME thing, as early in the life of a worker process as possible
)

func (e Engine) Plan(tier string, seed uint64) []simrt.Case {
	nH, nS := 40, 40
	if tier == "thorough" {
		nH, nS = 1500, 1500
	}
	var cs []simrt.Case
	cs = append(cs, simrt.Case{Index: 0, Seed: 1, Args: []int{kSelfTest}, Label: "monitor self-test"})
	// Lazily initialised shared state is written by whoever comes first in the process and read by
	// everybody after: the unordered pair of accesses exists only between two workers of the SAME
	// schedule that both need it for the first time. These cases come first in the plan, so that
	// (cases being dealt out round-robin) they are the first things a worker process does, and
	// they walk through a list of operations with different features, both workers doing the same.
	nFresh := 2 * len(featureOps())
	if tier == "thorough" {
		nFresh = 8 * len(featureOps())
	}
	for i := 0; i < nFresh; i++ {
		cs = append(cs, simrt.Case{Index: len(cs), Seed: simrt.Mix(seed, 17, 4, uint64(i)), Args: []int{kFresh, i}, Label: "fresh"})
	}
	for i := 0; i < nH; i++ {
		cs = append(cs, simrt.Case{Index: len(cs), Seed: simrt.Mix(seed, 17, 0, uint64(i)), Args: []int{kHistory}})
	}
	for i := 0; i < nS; i++ {
		cs = append(cs, simrt.Case{Index: len(cs), Seed: simrt.Mix(seed, 17, 1, uint64(i)), Args: []int{kSchedule}})
	}
	for i := 0; i < nS; i++ {
		cs = append(cs, simrt.Case{Index: len(cs), Seed: simrt.Mix(seed, 17, 2, uint64(i)), Args: []int{kPairs}})
	}
	// rejected / accepted alternations of one kind: as a history, and split over two workers
	for i := 0; i < nPoison; i++ {
		cs = append(cs, simrt.Case{Index: len(cs), Seed: simrt.Mix(seed, 17, 5, uint64(i)), Args: []int{kHistory, -(i + 1)}, Label: "poison-history"})
	}
	for i := 0; i < nPoison; i++ {
		cs = append(cs, simrt.Case{Index: len(cs), Seed: simrt.Mix(seed, 17, 6, uint64(i)), Args: []int{kFresh, i, 1}, Label: "poison-schedule"})
	}
	// one history per polarity pair (every pair in every run, both members in a drawn order)
	for i := range polarityPairs {
		cs = append(cs, simrt.Case{Index: len(cs), Seed: simrt.Mix(seed, 17, 3, uint64(i)), Args: []int{kHistory, i + 1}, Label: "polarity-pair"})
	}
	return cs
}

// ---- race log -----------------------------------------------------------------------------------

type raceReport struct {
	text   string
	stacks [2][]string // function names of the two access stacks, innermost first
}

func (e Engine) raceLogPath() string { return fmt.Sprintf("%s.%d", e.RaceLog, os.Getpid()) }

func (e Engine) raceLogSize() int64 {
	st, err := os.Stat(e.raceLogPath())
	if err != nil {
		return 0
	}
	return st.Size()
}

func isEmergeFrame(fn string) bool {
	if strings.HasPrefix(fn, "github.com/gardenbed/emerge/zz_verif/") {
		return strings.Contains(fn, "/c17.plant") // only the self-test's planted accesses count as code under test
	}
	return strings.HasPrefix(fn, "github.com/gardenbed/emerge/")
}

// ownerFrame returns the frame that owns the shared object of one access: walking outwards from
// the access, the first frame that is emerge's own code or that matches one of the owner patterns
// of the listed known findings (dependency functions that are known to close over package-level
// state). Generic helpers in between (hash writers, PRNG internals, table methods) are skipped, so
// an emerge-owned object that is merely *touched* inside a dependency helper is attributed to the
// emerge function that passed it in.
func ownerFrame(x *simrt.Ctx, frames []string) (fn string, known string) {
	for _, f := range frames {
		if isEmergeFrame(f) {
			return f, ""
		}
		for _, k := range x.Known {
			if k.Status != "known" || k.Signature == "" {
				continue
			}
			for _, pat := range strings.Split(k.Signature, "|") {
				if pat = strings.TrimSpace(pat); pat != "" && strings.Contains(f, pat) {
					return f, k.ID
				}
			}
		}
	}
	return "unknown", ""
}

func parseRaceReports(s string) []raceReport {
	var out []raceReport
	for _, blk := range strings.Split(s, "==================") {
		if !strings.Contains(blk, "DATA RACE") {
			continue
		}
		r := raceReport{text: strings.TrimSpace(blk)}
		idx := 0
		for _, para := range strings.Split(blk, "\n\n") {
			p := strings.TrimSpace(para)
			if strings.HasPrefix(p, "WARNING") {
				if i := strings.Index(p, "\n"); i >= 0 {
					p = p[i+1:]
				}
			}
			if !(strings.HasPrefix(p, "Read at") || strings.HasPrefix(p, "Write at") || strings.HasPrefix(p, "Previous ") || strings.HasPrefix(p, "Atomic ")) {
				continue
			}
			if idx >= 2 {
				break
			}
			for _, l := range strings.Split(p, "\n")[1:] {
				l = strings.TrimSpace(l)
				if l == "" || strings.HasPrefix(l, "/") || strings.HasPrefix(l, "<") {
					continue
				}
				fn := l
				if i := strings.LastIndex(fn, "("); i > 0 {
					fn = fn[:i]
				}
				r.stacks[idx] = append(r.stacks[idx], fn)
			}
			idx++
		}
		out = append(out, r)
	}
	return out
}

func shortFn(fn string) string {
	if i := strings.Index(fn, "["); i >= 0 {
		// drop generic instantiation noise
		if j := strings.LastIndex(fn, "]"); j > i {
			fn = fn[:i] + fn[j+1:]
		}
	}
	return fn
}

// classify returns a violation class for a race report, or the id of a known finding.
func classify(x *simrt.Ctx, r raceReport) (class string, known string) {
	f0, k0 := ownerFrame(x, r.stacks[0])
	f1, k1 := ownerFrame(x, r.stacks[1])
	pk := []string{shortFn(f0), shortFn(f1)}
	sort.Strings(pk)
	class = "race:" + pk[0] + "<->" + pk[1]
	if k0 != "" && k1 != "" {
		return class, k0
	}
	return class, ""
}

// ---- the monitor self-test ---------------------------------------------------------------------

var plantedCounter int
var plantedGuarded int
var plantedMu chan struct{} // a channel used as a lock: an ordering the detector understands

func plantRacy() { simsched.Yield(-1); plantedCounter++; simsched.Yield(-2); plantedCounter++ }
func plantGuarded() {
	simsched.Yield(-3)
	plantedMu <- struct{}{}
	plantedGuarded++
	<-plantedMu
	simsched.Yield(-4)
}

var plantedLocked int
var plantedLock simsync.Mutex

// plantLocked holds a mutex of the simulator's sync stand-in across two scheduling points: the other
// worker finds it taken, polls (YieldBlocked) and must neither deadlock the simulation nor be
// reported as racing.
func plantLocked() {
	simsched.Yield(-5)
	plantedLock.Lock()
	simsched.Yield(-6)
	plantedLocked++
	simsched.Yield(-7)
	plantedLock.Unlock()
}

func (e Engine) selfTest(res *simrt.Result) *simrt.Result {
	plantedMu = make(chan struct{}, 1)
	before := e.raceLogSize()
	alt := func(runnable []int, last, step, site int) int { return runnable[step%len(runnable)] }
	simsched.Run([]func(){plantGuarded, plantGuarded}, alt, 1000)
	simsched.ResetReach()
	if _, ok := simsched.Run([]func(){plantLocked, plantLocked, plantLocked}, alt, 1000); !ok || plantedLocked != 3 {
		panic("monitor self-test: workers contending for a mutex did not all finish (harness bug)")
	}
	if simsched.BlockedPolls == 0 {
		panic("monitor self-test: the contended mutex was never found taken - the polling path was not exercised (harness bug)")
	}
	res.Count("monitor_selftest_blocked_polls", simsched.BlockedPolls)
	if e.raceLogSize() != before {
		b, _ := os.ReadFile(e.raceLogPath())
		panic("monitor self-test: a channel-ordered or mutex-protected counter was reported as a race (harness bug):\n" + string(b[before:]))
	}
	simsched.Run([]func(){plantRacy, plantRacy}, alt, 1000)
	time.Sleep(50 * time.Millisecond)
	b, _ := os.ReadFile(e.raceLogPath())
	if int64(len(b)) <= before || !strings.Contains(string(b[before:]), "plantRacy") {
		panic("monitor self-test: the planted unsynchronised counter was NOT reported - the scheduler hand-off hides races from the detector (harness bug)")
	}
	res.Evals += 2
	res.Count("monitor_selftest_planted_race_seen", 1)
	res.Key("selftest")
	res.Key("selftest-guarded")
	return res
}

// ---- the engine ---------------------------------------------------------------------------------

func (e Engine) Run(t *simrt.Tape, c simrt.Case, x *simrt.Ctx) *simrt.Result {
	res := simrt.NewResult()
	simctl.Begin(simctl.Sorted, c.Seed) // the dependency's clock-seeded PRNGs follow the case seed: schedules replay exactly
	if e.RaceLog == "" {
		panic("VERIF_RACE_LOG not set")
	}
	if c.Args[0] == kSelfTest {
		return e.selfTest(res)
	}
	pool := e.Pool()
	logBefore := e.raceLogSize()
	// half of the cases concentrate on one family of operations (shared state is per package)
	switch t.Draw(7) {
	case 6:
		// one pair per case: a short history or schedule then almost surely holds both members, in
		// both orders over the cases
		pool = polarityPair(t.Draw(len(polarityPairs)))
	case 5:
		pool = nameOps()
	case 0:
		pool = filterPool(pool, "nfa", "regex_dfa")
	case 1:
		pool = filterPool(pool, "spec", "spec_dfa", "spec_lalr", "ast", "generate")
	case 2:
		pool = collisionOps()
	case 3:
		if c.Args[0] != kHistory || t.Chance(1, 2) {
			pool = generateOps()
		}
	}

	checkRaces := func(note string) bool {
		b, err := os.ReadFile(e.raceLogPath())
		if err != nil || int64(len(b)) <= logBefore {
			return true
		}
		newText := string(b[logBefore:])
		logBefore = int64(len(b))
		for _, r := range parseRaceReports(newText) {
			if strings.Contains(r.text, "plantRacy") {
				continue
			}
			class, known := classify(x, r)
			res.Volatile["race_reports"]++
			if known != "" {
				res.Volatile["known:"+known]++
				continue
			}
			x.Tracef("%s", r.text)
			res.Violation = &simrt.Violation{Class: class, Message: fmt.Sprintf("unsynchronised access to shared memory from two concurrently parsing goroutines (%s)\n%s", note, clip(r.text, 2500))}
			return false
		}
		return true
	}

	if c.Args[0] == kPairs {
		if fam := t.Draw(6); fam == 5 {
			pool = polarityPair(t.Draw(len(polarityPairs)))
		} else {
			pool = e.hotOps(fam)
		}
	}
	switch c.Args[0] {
	case kHistory:
		n := 2 + t.Draw(7)
		if len(c.Args) > 1 && c.Args[1] > 0 {
			pool = polarityPair(c.Args[1] - 1)
			n = 5 + t.Draw(4)
		}
		var names []string
		var ops []Op
		var raws []*Raw
		defer func() {
			for _, o := range ops {
				cleanDir(o)
			}
		}()
		var fixed []Op
		if len(c.Args) > 1 && c.Args[1] < 0 {
			fixed = poisonList(-c.Args[1] - 1)
			n = len(fixed)
		}
		for i := 0; i < n; i++ {
			var o Op
			if fixed != nil {
				o = e.withDir(fixed[i])
			} else {
				o = e.withDir(pool[t.Draw(len(pool))])
			}
			r := ExecRaw(o)
			ops, raws = append(ops, o), append(raws, r)
			got := Canon(r)
			res.Evals++
			names = append(names, fmt.Sprintf("%s#%x", o.Kind, simrt.HashString(o.Text)&0xffff))
			if strings.HasPrefix(got, "ERROR") && i < n-1 {
				res.Count("history_after_rejected_input", 1)
			}
			if want := e.iso(o); got != want {
				x.Tracef("history so far: %v", names)
				res.Violation = &simrt.Violation{Class: "history_affects_result:" + o.Kind, Message: fmt.Sprintf("operation %d of the history (%s on %q) gives a result different from an isolated run\n--- isolated ---\n%s\n--- in this history ---\n%s", i, o.Kind, clip(o.Text, 200), clipDiff(want, got, 1200), clipDiff(got, want, 1200)),
					Detail: map[string]any{"history": names}}
				return res
			}
		}
		// a result the caller still holds must not change when something else is processed afterwards
		for i, r := range raws {
			res.Evals++
			if got, want := Canon(r), e.iso(ops[i]); got != want {
				x.Tracef("history: %v", names)
				res.Violation = &simrt.Violation{Class: "later_run_alters_earlier_result:" + ops[i].Kind, Message: fmt.Sprintf("the result of operation %d of the history (%s on %q) was right when it was returned and is different after the operations that followed it\n--- isolated / when returned ---\n%s\n--- after the rest of the history ---\n%s", i, ops[i].Kind, clip(ops[i].Text, 200), clipDiff(want, got, 1200), clipDiff(got, want, 1200)),
					Detail: map[string]any{"history": names}}
				return res
			}
		}
		res.Key("history", strings.Join(names, ","))

	case kSchedule, kPairs, kFresh:
		nw := 2 + t.Draw(3)
		if c.Args[0] == kPairs {
			nw = 2 + t.Draw(2)
		}
		var freshOp *Op
		var fixedLists [][]Op
		if c.Args[0] == kFresh && len(c.Args) > 2 && c.Args[2] == 1 {
			// worker 0: rejected, accepted, rejected; worker 1: accepted, rejected, accepted
			pl := poisonList(c.Args[1])
			nw = 2
			fixedLists = [][]Op{{pl[0], pl[1], pl[2]}, {pl[3], pl[4], pl[5]}}
		} else if c.Args[0] == kFresh {
			nw = 2 + t.Draw(2)
			fo := featureOps()
			freshOp = &fo[c.Args[1]%len(fo)]
		}
		lists := make([][]Op, nw)
		results := make([][]string, nw)
		raws := make([][]*Raw, nw)
		var desc []string
		for w := 0; w < nw; w++ {
			k := 1 + t.Draw(2)
			if fixedLists != nil {
				k = len(fixedLists[w])
			}
			for j := 0; j < k; j++ {
				o := pool[t.Draw(len(pool))]
				if o.Kind == "spec_lalr" && t.Chance(1, 2) {
					o.Kind = "spec" // keep most schedules short
				}
				if freshOp != nil {
					o = *freshOp
				}
				if fixedLists != nil {
					o = fixedLists[w][j]
				}
				o = e.withDir(o)
				defer cleanDir(o)
				lists[w] = append(lists[w], o)
				desc = append(desc, fmt.Sprintf("w%d:%s#%x", w, o.Kind, simrt.HashString(o.Text)&0xffff))
			}
			results[w] = make([]string, len(lists[w]))
			raws[w] = make([]*Raw, len(lists[w]))
		}
		policy := t.Draw(4)
		if c.Args[0] == kFresh {
			policy = []int{4, 3, 0}[t.Draw(3)]
			if freshOp == nil {
				policy = []int{4, 3, 0}[t.Draw(3)]
			} else if k := freshOp.Kind; k == "generate" || k == "spec_lalr" || k == "spec_dfa" {
				policy = []int{3, 1}[t.Draw(2)] // long operations: pre-empt where shared state is touched, not at every yield
			}
		}
		if c.Args[0] == kPairs {
			policy = []int{4, 4, 3, 0}[t.Draw(4)] // mostly strict alternation at every yield point
		}
		// PCT-style: d pre-emption points at tape-chosen steps; otherwise keep running the current one
		preempt := map[int]bool{}
		if policy == 2 {
			d := 1 + t.Draw(3)
			for i := 0; i < d; i++ {
				preempt[t.Draw(4000)] = true
			}
		}
		var fns []func()
		for w := 0; w < nw; w++ {
			w := w
			fns = append(fns, func() {
				for j, o := range lists[w] {
					raws[w][j] = ExecRaw(o)
				}
			})
		}
		simsched.ResetReach()
		choose := func(runnable []int, last, step, site int) int {
			stay := -1
			for i, r := range runnable {
				if r == last {
					stay = i
				}
			}
			switch policy {
			case 0: // uniformly random
				return runnable[t.Draw(len(runnable))]
			case 1: // mostly stay, switch with probability 1/16
				if stay >= 0 && !t.Chance(1, 16) {
					return runnable[stay]
				}
				return runnable[t.Draw(len(runnable))]
			case 4: // strict alternation
				return runnable[step%len(runnable)]
			case 2:
				if stay >= 0 && !preempt[step] {
					return runnable[stay]
				}
				return runnable[t.Draw(len(runnable))]
			default: // pre-empt where shared state is touched: yield sites at package-level variable accesses
				if stay >= 0 {
					if site >= simsched.GlobalSiteBase {
						if !t.Chance(1, 2) {
							return runnable[stay]
						}
					} else if !t.Chance(1, 64) {
						return runnable[stay]
					}
				}
				return runnable[t.Draw(len(runnable))]
			}
		}
		schedule, ok := simsched.Run(fns, choose, 3_000_000)
		if !ok {
			panic("schedule exceeded the step budget")
		}
		for w := range raws {
			for j := range raws[w] {
				results[w][j] = Canon(raws[w][j])
			}
		}
		res.Count("context_switches", simsched.Switches)
		res.Count("blocked_polls_on_locks", simsched.BlockedPolls)
		res.Count("yield_steps", simsched.Steps)
		for pr := range simsched.Adjacent {
			res.Key("adjacent", pr[0], pr[1])
			if pr[0] >= simsched.GlobalSiteBase {
				res.Count("preempt_at_global_access", 1)
			}
		}
		if simsched.Switches > 0 {
			res.Key("schedule", simrt.HashString(string(schedule)), strings.Join(desc, ","))
		}
		x.Tracef("workers: %v", desc)
		x.Tracef("policy=%d steps=%d switches=%d schedule(rle)=%s", policy, simsched.Steps, simsched.Switches, rle(schedule))
		for w := 0; w < nw; w++ {
			for j, o := range lists[w] {
				res.Evals++
				if want := e.iso(o); results[w][j] != want {
					res.Violation = &simrt.Violation{Class: "concurrent_result_differs:" + o.Kind, Message: fmt.Sprintf("worker %d, operation %d (%s on %q) under the simulated schedule gives a result different from an isolated run\n--- isolated ---\n%s\n--- concurrent ---\n%s\n  workers: %v\n  schedule: %s", w, j, o.Kind, clip(o.Text, 200), clipDiff(want, results[w][j], 1200), clipDiff(results[w][j], want, 1200), desc, clip(rle(schedule), 400)),
						Detail: map[string]any{"workers": desc, "policy": policy}}
					return res
				}
			}
		}
		time.Sleep(2 * time.Millisecond)
		if !checkRaces(fmt.Sprintf("workers %v", desc)) {
			return res
		}
		if c.Index%10 == 1 {
			res.Sample = map[string]any{"workers": desc, "policy": policy, "steps": simsched.Steps, "switches": simsched.Switches, "schedule_rle": clip(rle(schedule), 200)}
		}
	}
	return res
}

func filterPool(pool []Op, kinds ...string) []Op {
	var out []Op
	for _, o := range pool {
		for _, k := range kinds {
			if o.Kind == k {
				out = append(out, o)
			}
		}
	}
	return out
}

func rle(s []byte) string {
	var b strings.Builder
	for i := 0; i < len(s); {
		j := i
		for j < len(s) && s[j] == s[i] {
			j++
		}
		fmt.Fprintf(&b, "%dx%d ", s[i], j-i)
		i = j
	}
	return b.String()
}

// clipDiff clips a to n bytes around the first position at which it differs from b.
func clipDiff(a, b string, n int) string {
	i := 0
	for i < len(a) && i < len(b) && a[i] == b[i] {
		i++
	}
	if i < n/2 || len(a) <= n {
		return clip(a, n)
	}
	return "…" + clip(a[i-n/2:], n)
}

func clip(s string, n int) string {
	if len(s) > n {
		return s[:n] + "…"
	}
	return s
}
