// Package c13 decides property C13: what emerge derives from a specification depends only on its
// token sequence - not on layout, padding, file length, a final newline, or where tokens fall
// relative to the reader's buffer halves. The "disk" of this library is the io.Reader argument;
// the simulator owns it and decides where the file ends and where each refill falls.
package c13

import (
	"fmt"
	"os"
	"path/filepath"
	"regexp"
	"sort"
	"strconv"
	"strings"
	"time"

	"github.com/moorara/algo/generic"

	ebnflexer "github.com/gardenbed/emerge/internal/ebnf/lexer"
	"github.com/gardenbed/emerge/internal/ebnf/parser/ast"
	"github.com/gardenbed/emerge/internal/ebnf/parser/spec"
	"github.com/gardenbed/emerge/zz_verif/gen"
	"github.com/gardenbed/emerge/zz_verif/simrt"
	simctl "github.com/moorara/algo/zz_simctl"
)

const filename = "SPEC.ebnf"

var posRE = regexp.MustCompile(`SPEC\.ebnf:(\d+):(\d+)`)

type Engine struct{ FixtureDir string }

func (Engine) ID() string { return "C13" }

func (Engine) Meta() simrt.Meta {
	return simrt.Meta{
		Level: "exploration",
		Rule: "a case = one generated specification (token list) with a baseline layout and a family of re-laid-out variants; an evaluation = one variant text parsed by spec.Parse and ebnf/ast.Parse through the simulated reader and compared with the baseline; " +
			"distinct_nontrivial counts distinct (role of the aligned byte: first/last/look-ahead, lexeme kind, buffer boundary k, phase d) tuples actually placed on a boundary, distinct end-of-file classes (file length relative to k*B, kind and length of the final lexeme) and distinct random layout styles on files longer than one buffer half; variants shorter than one half that merely re-space tokens are evaluated but not counted",
		Assumptions: []string{
			"Go toolchain; layout engine positions (R-pos) are right - enforced per variant by an independent tokenizer written from docs/5-definitions.md (a disagreement is exit 2, not a verdict)",
			"the baseline layout (single spaces, every semicolon, final newline, shorter than one buffer half) is the reference reading of the token sequence",
			"buffer half size is read from the tree (lexer.bufferSize via export overlay), not mirrored",
			"the delivery cases hand out the same bytes in other chunkings (short reads, zero-length reads, last chunk with io.EOF - all allowed by the io.Reader contract); read ERRORS are C14's matter",
		},
		RealCode:    []string{"internal/ebnf/lexer", "internal/ebnf/parser", "internal/ebnf/parser/spec (Parse)", "internal/ebnf/parser/ast (Parse)", "moorara/algo lexer/input (two-half buffer), symboltable, grammar, parser/lr"},
		Stubs:       []string{"io.Reader (SimReader: regular-file mode or a benign delivery schedule, end of file placed at a chosen byte)"},
		FaultKinds:  []string{"eof_inside_or_after_last_token", "eof_on_half_boundary", "refill_crossings", "retract_across_boundary", "delivery_short_reads", "delivery_zero_length_reads", "delivery_data_with_eof"},
		CaseTimeout: 300 * time.Second,
	}
}

// case kinds
const (
	kRandom = iota
	kAligned
	kSweep
	kEOF
	kFixture
	kPosSweep // small leading paddings 0..130 on specifications whose diagnostics carry positions
	kDelivery // random layouts read through a benign delivery schedule (short chunks, zero-length reads, data with io.EOF)
	kHuge     // files far beyond the buffer: offsets, lines and columns pass 2^15, 2^16, 2^17 and 2^20
)

var fixtures = []string{"ebnf.grammar", "pascal.grammar", "test.success.grammar", "test.invalid.grammar", "test.error.grammar"}

func (e Engine) Plan(tier string, seed uint64) []simrt.Case {
	var cs []simrt.Case
	add := func(s uint64, label string, args ...int) {
		cs = append(cs, simrt.Case{Index: len(cs), Seed: s, Args: args, Label: label})
	}
	nRandom, nAligned, nEOF, nSweepSpecs := 48, 12, 16, 0
	if tier == "thorough" {
		nRandom, nAligned, nEOF, nSweepSpecs = 600, 60, 120, 10
	}
	for i := 0; i < nRandom; i++ {
		add(simrt.Mix(seed, 13, 0, uint64(i)), "random", kRandom)
	}
	for i := 0; i < nAligned; i++ {
		for k := 1; k <= 3; k++ {
			add(simrt.Mix(seed, 13, 1, uint64(i)), "aligned", kAligned, k)
		}
	}
	for i := 0; i < nEOF; i++ {
		add(simrt.Mix(seed, 13, 3, uint64(i)), "eof", kEOF)
	}
	for f := range fixtures {
		add(simrt.Mix(seed, 13, 4, uint64(f)), "fixture:"+fixtures[f], kFixture, f)
	}
	nDel := 16
	if tier == "thorough" {
		nDel = 200
	}
	for i := 0; i < nDel; i++ {
		add(simrt.Mix(seed, 13, 6, uint64(i)), "delivery", kDelivery)
	}
	nHuge := 4
	if tier == "thorough" {
		nHuge = 40
	}
	for i := 0; i < nHuge; i++ {
		add(simrt.Mix(seed, 13, 7, uint64(i)), "huge", kHuge, i)
	}
	nPos := 8
	if tier == "thorough" {
		nPos = 80
	}
	for i := 0; i < nPos; i++ {
		add(simrt.Mix(seed, 13, 5, uint64(i)), "position-sweep", kPosSweep, i)
	}
	// complete sweeps of the leading padding 0..3B+64, in chunks
	B := ebnflexer.VerifBufferSize
	for i := 0; i < nSweepSpecs; i++ {
		const chunk = 512
		for lo := 0; lo <= 3*B+64; lo += chunk {
			add(simrt.Mix(seed, 13, 2, uint64(i)), "sweep", kSweep, lo, min(lo+chunk, 3*B+65))
		}
	}
	return cs
}

// ---- canonical outcomes ----------------------------------------------------------------------

type outcome struct {
	spec string // canonical form of spec.Parse's result or error
	ast  string // canonical form of ast.Parse's result or error
}

func normPositions(s string, lay *gen.Layout) string {
	return posRE.ReplaceAllStringFunc(s, func(m string) string {
		sub := posRE.FindStringSubmatch(m)
		if idx, ok := lay.PosTok[sub[1]+":"+sub[2]]; ok {
			return "@tok" + strconv.Itoa(idx)
		}
		return "@?" + sub[1] + ":" + sub[2]
	})
}

func canonErr(err error, lay *gen.Layout) string {
	// The order of the lines is part of what is reported: since the diagnostics of one specification
	// come out in a fixed order (C15), a layout must not reorder them either.
	lines := strings.Split(normPositions(err.Error(), lay), "\n")
	for i := range lines {
		lines[i] = strings.TrimSpace(lines[i])
	}
	return "REJECTED\n" + strings.Join(lines, "\n")
}

func canonSpec(sp *spec.Spec, lay *gen.Layout) string {
	var b strings.Builder
	fmt.Fprintf(&b, "ACCEPTED name=%s start=%s\n", sp.Name, sp.Grammar.Start)
	var xs []string
	for t := range sp.Grammar.Terminals.All() {
		xs = append(xs, "T "+t.String())
	}
	for n := range sp.Grammar.NonTerminals.All() {
		xs = append(xs, "N "+n.String())
	}
	for p := range sp.Grammar.Productions.All() {
		xs = append(xs, "P "+p.String())
	}
	for _, d := range sp.Definitions {
		pos := "nopos"
		if d.Pos != nil {
			pos = "@?" + d.Pos.String()
			if idx, ok := lay.PosTok[fmt.Sprintf("%d:%d", d.Pos.Line, d.Pos.Column)]; ok {
				pos = "@tok" + strconv.Itoa(idx)
				if lay.TokPos[idx].Offset != d.Pos.Offset {
					pos += fmt.Sprintf("(offset %d, text has it at %d)", d.Pos.Offset, lay.TokPos[idx].Offset)
				}
			}
		}
		xs = append(xs, fmt.Sprintf("D %s value=%q regex=%v pos=%s", d.Terminal, d.Value, d.IsRegex, pos))
	}
	sort.Strings(xs)
	b.WriteString(strings.Join(xs, "\n"))
	b.WriteString("\nPRECEDENCES\n")
	b.WriteString(sp.Precedences.String())
	return b.String()
}

func canonAST(g *ast.Grammar, lay *gen.Layout) string {
	var b strings.Builder
	b.WriteString("TREE\n")
	ast.Traverse(g, generic.VLR, func(n ast.Node) bool {
		fmt.Fprintf(&b, "%T %s", n, normPositions(n.String(), lay))
		if p := n.Pos(); p != nil && !p.IsZero() {
			if idx, ok := lay.PosTok[fmt.Sprintf("%d:%d", p.Line, p.Column)]; ok && lay.TokPos[idx].Offset == p.Offset {
				fmt.Fprintf(&b, " pos=@tok%d", idx)
			} else {
				fmt.Fprintf(&b, " pos=@?%d:%d/%d", p.Line, p.Column, p.Offset)
			}
		}
		b.WriteByte('\n')
		return true
	})
	return b.String()
}

type readerProbe struct{ calls int }

func evaluate(lay *gen.Layout, plan simrt.ReadPlan) (o outcome, calls int) {
	func() {
		defer func() {
			if r := recover(); r != nil {
				o.spec = fmt.Sprintf("PANIC %v", r)
			}
		}()
		rd := simrt.NewSimReader(lay.Text, plan)
		sp, err := spec.Parse(filename, rd)
		calls = rd.Calls
		switch {
		case err != nil && sp != nil:
			o.spec = "BOTH result and error"
		case err != nil:
			o.spec = canonErr(err, lay)
		case sp == nil:
			o.spec = "NEITHER result nor error"
		default:
			o.spec = canonSpec(sp, lay)
		}
	}()
	func() {
		defer func() {
			if r := recover(); r != nil {
				o.ast = fmt.Sprintf("PANIC %v", r)
			}
		}()
		g, err := ast.Parse(filename, simrt.NewSimReader(lay.Text, plan))
		switch {
		case err != nil:
			o.ast = canonErr(err, lay)
		case g == nil:
			o.ast = "NEITHER result nor error"
		default:
			o.ast = canonAST(g, lay)
		}
	}()
	return
}

// ---- known-finding signatures (computed from the generated text only) -------------------------

func signatures(lay *gen.Layout, B int) (sigs []string) {
	lx := lay.Lexemes
	if len(lx) == 0 {
		return nil
	}
	last := lx[len(lx)-1]
	if len(lx) >= 2 && last.Len == 1 {
		sigs = append(sigs, "C13-sticky-eof-swallows-retracted-char")
	}
	if last.Len >= 2 && !gen.IsSeparator(last.Kind) {
		sigs = append(sigs, "C13-pending-lexeme-dropped-at-eof")
	}
	for _, l := range lx[1:] {
		if (l.Start+1)%B == 0 {
			sigs = append(sigs, "C13-half-reloaded-twice-after-retract")
			break
		}
	}
	return
}

// ---- the engine ------------------------------------------------------------------------------

type runner struct {
	res  *simrt.Result
	x    *simrt.Ctx
	s    *gen.Spec
	base outcome
	B    int
	n    int
	plan *simrt.ReadPlan // nil: regular file; otherwise the benign delivery schedule of the next variant
}

// check evaluates one variant against the baseline. It returns false once a violation is recorded.
func (r *runner) check(st gen.Style, note string) bool {
	lay := gen.Render(r.s, st)
	if err := lay.Check(r.s); err != nil {
		panic(fmt.Sprintf("layout self-check failed (harness bug): %v\nstyle=%+v", err, st))
	}
	plan := simrt.FullPlan()
	if r.plan != nil {
		plan = *r.plan
		note += "; delivered as " + plan.String()
	}
	got, calls := evaluate(lay, plan)
	r.res.Evals++
	r.n++
	if r.plan == nil {
		r.res.Count("refill_crossings", max(0, calls-2))
	}
	if got == r.base {
		return true
	}
	sigs := signatures(lay, r.B)
	for _, id := range sigs {
		if r.x.IsKnown(id) {
			r.res.Known[id]++
			if os.Getenv("VERIF_DEBUG") != "" {
				fmt.Fprintf(os.Stderr, "KNOWNHIT %s style=%+v len=%d\n", note, st, len(lay.Text))
			}
			r.res.Count("known_hit_"+strings.SplitN(note, ":", 2)[0]+fmt.Sprintf("_padkind%d", st.PadKind), 1)
			r.x.Tracef("variant %s matches known finding %s (len=%d)", note, id, len(lay.Text))
			return true
		}
	}
	which, want, have := "spec.Parse", r.base.spec, got.spec
	if got.spec == r.base.spec {
		which, want, have = "ast.Parse", r.base.ast, got.ast
	}
	class := "outcome_differs"
	switch {
	case strings.HasPrefix(have, "PANIC"):
		class = "panic"
	case strings.HasPrefix(want, "ACCEPTED") && strings.HasPrefix(have, "REJECTED"), strings.HasPrefix(want, "TREE") && strings.HasPrefix(have, "REJECTED"):
		class = "accepted_becomes_rejected"
	case strings.HasPrefix(want, "REJECTED") && !strings.HasPrefix(have, "REJECTED"):
		class = "rejected_becomes_accepted"
	case strings.Contains(have, "@?") || strings.Contains(have, "(offset "):
		class = "position_wrong"
	case strings.HasPrefix(want, "REJECTED") && strings.HasPrefix(have, "REJECTED") && sameLines(want, have):
		class = "diagnostic_lines_reordered"
	}
	if len(sigs) > 0 {
		class += "[" + strings.Join(sigs, ",") + "]"
	}
	if r.plan != nil {
		class += "[delivery]"
	}
	r.res.Fail(class, "%s on the re-laid-out text (%s; %d bytes, B=%d) differs from the baseline.\n--- baseline ---\n%s\n--- variant ---\n%s\n--- diff ---\n%s",
		which, note, len(lay.Text), r.B, clip(want), clip(have), firstDiff(want, have))
	r.res.Violation.Detail = map[string]any{"style": st, "text_len": len(lay.Text), "tail": string(lay.Text[max(0, len(lay.Text)-80):])}
	r.x.Tracef("style=%+v", st)
	return false
}

func sameLines(a, b string) bool {
	x, y := strings.Split(a, "\n"), strings.Split(b, "\n")
	sort.Strings(x)
	sort.Strings(y)
	return strings.Join(x, "\n") == strings.Join(y, "\n")
}

func clip(s string) string {
	if len(s) > 1500 {
		return s[:1500] + "…"
	}
	return s
}

func firstDiff(a, b string) string {
	al, bl := strings.Split(a, "\n"), strings.Split(b, "\n")
	for i := 0; i < len(al) || i < len(bl); i++ {
		var x, y string
		if i < len(al) {
			x = al[i]
		}
		if i < len(bl) {
			y = bl[i]
		}
		if x != y {
			return fmt.Sprintf("line %d: baseline %q | variant %q", i, x, y)
		}
	}
	return "(equal)"
}

func (e Engine) Run(t *simrt.Tape, c simrt.Case, x *simrt.Ctx) *simrt.Result {
	res := simrt.NewResult()
	simctl.Begin(simctl.Sorted, c.Seed) // the dependency's clock-seeded PRNGs follow the case seed: exact replay
	B := ebnflexer.VerifBufferSize
	kind := c.Args[0]

	var s *gen.Spec
	if kind == kFixture {
		b, err := os.ReadFile(filepath.Join(e.FixtureDir, fixtures[c.Args[1]]))
		if err != nil {
			panic(err)
		}
		s = specFromText(b)
		if s == nil {
			res.Skipped++
			return res
		}
	} else if kind == kPosSweep || (kind == kHuge && c.Args[1]%2 == 1) {
		modes := []string{"duplicate_value", "duplicate_def", "literal_equals_token_value", "duplicate_value", "valid", "syntax_insert"}
		s = gen.GenSpec(t, gen.GenOpts{ForceMode: modes[c.Args[1]%len(modes)], MaxRules: 2})
	} else {
		s = gen.GenSpec(t, gen.GenOpts{AllowInvalid: true})
	}
	baseLay := gen.Render(s, gen.Style{Baseline: true})
	if err := baseLay.Check(s); err != nil {
		panic("baseline self-check: " + err.Error())
	}
	if len(baseLay.Text) >= B-1 {
		res.Skipped++
		return res
	}
	base, _ := evaluate(baseLay, simrt.FullPlan())
	res.Evals++
	r := &runner{res: res, x: x, s: s, base: base, B: B}
	x.Tracef("mode=%s baseline (%d bytes): %q", s.Mode, len(baseLay.Text), string(baseLay.Text))
	x.Tracef("baseline outcome: %s", firstLines(base.spec, 3))
	if strings.HasPrefix(base.spec, "PANIC") || strings.HasPrefix(base.ast, "PANIC") {
		// a panic on the plain baseline is an input-driven crash: C14's matter, not a layout dependence
		res.Skipped++
		return res
	}

	padTarget := func() int {
		switch t.Draw(5) {
		case 0:
			return 0
		case 1:
			return t.Draw(64)
		case 2, 3:
			k := 1 + t.Draw(3)
			return max(0, k*B-len(baseLay.Text)-32+t.Draw(len(baseLay.Text)+64))
		}
		return t.Draw(3*B + 65)
	}

	switch kind {
	case kRandom, kFixture:
		n := 12
		for i := 0; i < n; i++ {
			st := gen.Style{
				SepSeed: uint64(t.Draw(1 << 30)), DropSemis: t.Chance(1, 3), FinalNL: t.Draw(4),
				LeadPad: padTarget(), PadKind: t.Draw(5), Tight: t.Chance(1, 4),
			}
			if t.Chance(1, 3) {
				st.MidGap = 1 + t.Draw(len(s.Toks))
				st.MidPad = padTarget()
			} else {
				t.Draw(1)
			}
			if !r.check(st, fmt.Sprintf("random layout %d", i)) {
				return res
			}
			if st.LeadPad+st.MidPad+len(baseLay.Text) > B {
				res.Key("style", st.FinalNL, st.PadKind, st.Tight, st.DropSemis, (st.LeadPad+st.MidPad)/512, st.MidPad > 0)
			}
		}

	case kDelivery:
		// The same bytes through a reader that behaves like a pipe: the token sequence is unchanged, so
		// is everything derived from it. (An injected read ERROR is C14's matter.)
		for i := 0; i < 16; i++ {
			st := gen.Style{
				SepSeed: uint64(t.Draw(1 << 30)), DropSemis: t.Chance(1, 3), FinalNL: t.Draw(4),
				LeadPad: padTarget(), PadKind: t.Draw(5), Tight: t.Chance(1, 4),
			}
			plan := simrt.FullPlan()
			switch t.Draw(4) {
			case 0:
				plan.Short, plan.MaxChunk = true, []int{1, 2, 3, 7}[t.Draw(4)]
			case 1:
				plan.Short, plan.MaxChunk = true, []int{64, 100, 1000, B / 2}[t.Draw(4)]
			case 2:
				plan.Short, plan.MaxChunk = true, []int{B - 1, B, B + 1, 3 * B}[t.Draw(4)]
			}
			plan.ChunkSeed = uint64(t.Draw(1 << 30))
			for n := t.Draw(4); n > 0; n-- {
				plan.ZeroCalls = append(plan.ZeroCalls, t.Draw(12))
			}
			plan.DataEOF = t.Chance(1, 2)
			if !plan.Short && len(plan.ZeroCalls) == 0 && !plan.DataEOF {
				plan.Short, plan.MaxChunk = true, 5
			}
			r.plan = &plan
			if !r.check(st, fmt.Sprintf("random layout %d", i)) {
				return res
			}
			res.Key("delivery", plan.Kind(), plan.MaxChunk, len(plan.ZeroCalls), st.LeadPad/1024)
			if plan.Short {
				res.Count("delivery_short_reads", 1)
			}
			if len(plan.ZeroCalls) > 0 {
				res.Count("delivery_zero_length_reads", 1)
			}
			if plan.DataEOF {
				res.Count("delivery_data_with_eof", 1)
			}
		}
		r.plan = nil

	case kAligned:
		// one fixed re-spaced layout; its lexemes are aligned against boundary k*B by solving the padding
		k := c.Args[1]
		st0 := gen.Style{SepSeed: uint64(t.Draw(1 << 30)), DropSemis: t.Chance(1, 2), FinalNL: t.Draw(4), PadKind: t.Draw(5)}
		lay0 := gen.Render(s, st0)
		if err := lay0.Check(s); err != nil {
			panic("layout self-check: " + err.Error())
		}
		// probes: first lexeme of each kind, plus the last lexeme and the last significant one
		seen := map[string]bool{}
		var probes []gen.Lexeme
		for i, l := range lay0.Lexemes {
			if !seen[l.Kind] || i == len(lay0.Lexemes)-1 {
				seen[l.Kind] = true
				probes = append(probes, l)
			}
		}
		for i := len(lay0.Lexemes) - 1; i >= 0; i-- {
			if !gen.IsSeparator(lay0.Lexemes[i].Kind) {
				probes = append(probes, lay0.Lexemes[i])
				break
			}
		}
		if x.Tier != "thorough" && len(probes) > 10 {
			// keep a tape-chosen subset in the quick tier
			for len(probes) > 10 {
				i := t.Draw(len(probes))
				probes = append(probes[:i], probes[i+1:]...)
			}
		}
		for _, pl := range probes {
			for role, at := range []int{pl.Start, pl.Start + pl.Len - 1, pl.Start + pl.Len} {
				for d := -2; d <= 2; d++ {
					pad := k*B + d - at
					if pad < 0 {
						continue
					}
					st := st0
					// pad either in front of everything or in the gap right before the probed token
					if pl.Tok > 0 && (role+d+k)%2 == 0 {
						gap := 0
						for gi, idx := range lay0.Kept {
							if idx == pl.Tok {
								gap = gi
							}
						}
						if gap > 0 {
							st.MidGap, st.MidPad = gap, pad
						} else {
							st.LeadPad = pad
						}
					} else {
						st.LeadPad = pad
					}
					// Near a boundary some *other* lexeme often starts at k*B-1, which is the signature of
					// the dependency's known double-reload defect and would exclude the variant from the
					// verdict if it fails. Where the alignment itself does not imply that, look for an
					// equivalent layout (other separators / padding kind) that is free of the signature.
					if pl.Tok >= 0 && !(d == -1 && role != 1) {
						if alt, ok := signatureFree(s, st, pl.Tok, role, k*B+d, B); ok {
							st = alt
							res.Count("aligned_signature_free", 1)
						} else {
							res.Count("aligned_signature_present", 1)
						}
					}
					note := fmt.Sprintf("aligned: %s byte of %s lexeme at %d*B%+d", []string{"first", "last", "look-ahead"}[role], pl.Kind, k, d)
					if !r.check(st, note) {
						return res
					}
					res.Key("align", role, pl.Kind, k, d)
					if role == 2 && d == -1 {
						res.Count("retract_across_boundary", 1)
					}
				}
			}
		}

	case kHuge:
		// Far more input than the buffer holds: byte offsets, line numbers (padding of newlines) and
		// column numbers (one long line of blanks) pass the 15-, 16-, 17- and 20-bit marks; a single
		// comment of that size; the padding in front of the first or in front of a later token.
		marks := []int{1 << 15, 1 << 16, 1 << 17, 1 << 20}
		for j := 0; j < 3; j++ {
			m := marks[(c.Args[1]+j)%len(marks)]
			if m == 1<<20 && j > 0 {
				m = 1 << 16
			}
			st := gen.Style{SepSeed: uint64(t.Draw(1 << 30)), DropSemis: t.Chance(1, 3), FinalNL: t.Draw(4), PadKind: (c.Args[1] + 2*j) % 5}
			pad := m - 40 + t.Draw(80)
			if t.Chance(1, 2) {
				st.LeadPad = pad
			} else {
				st.MidGap, st.MidPad = 1+t.Draw(len(s.Toks)), pad
			}
			if !r.check(st, fmt.Sprintf("huge: %d bytes of padding (kind %d, mid=%v)", pad, st.PadKind, st.MidPad > 0)) {
				return res
			}
			res.Key("huge", m, st.PadKind, st.MidPad > 0)
			res.Count("files_beyond_64KiB", 1)
		}

	case kPosSweep:
		// line and column numbers cross their digit-count boundaries (9|10, 99|100) under small paddings
		st0 := gen.Style{SepSeed: uint64(t.Draw(1 << 30)), FinalNL: 1}
		for _, pk := range []int{4, 0, 3} {
			for p := 0; p <= 130; p++ {
				st := st0
				st.PadKind, st.LeadPad = pk, p
				if !r.check(st, fmt.Sprintf("position sweep: %d bytes of leading padding (kind %d)", p, pk)) {
					return res
				}
				if p == 9 || p == 10 || p == 99 || p == 100 {
					res.Key("possweep", s.Mode, pk, p)
				}
			}
		}

	case kSweep:
		st0 := gen.Style{SepSeed: uint64(t.Draw(1 << 30)), DropSemis: t.Chance(1, 2), FinalNL: t.Draw(4), PadKind: t.Draw(5)}
		for p := c.Args[1]; p < c.Args[2]; p++ {
			st := st0
			st.LeadPad = p
			if !r.check(st, fmt.Sprintf("sweep: leading padding %d", p)) {
				return res
			}
			res.Key("sweep", c.Seed, p)
		}

	case kEOF:
		// end-of-file instants: file length k*B-1, k*B, k*B+1; last token flush against the end;
		// end inside trailing blanks / a trailing comment
		for k := 1; k <= 3; k++ {
			for d := -1; d <= 1; d++ {
				for fin := 0; fin < 4; fin++ {
					st := gen.Style{SepSeed: uint64(c.Seed % (1 << 30)), FinalNL: fin, PadKind: (k + d + fin + 5) % 5}
					l0 := gen.Render(s, st)
					pad := k*B + d - len(l0.Text)
					if pad < 0 {
						continue
					}
					st.LeadPad = pad
					lay := gen.Render(s, st)
					if len(lay.Text) != k*B+d {
						panic("padding arithmetic")
					}
					if err := lay.Check(s); err != nil {
						panic(err)
					}
					lastLex := lay.Lexemes[len(lay.Lexemes)-1]
					note := fmt.Sprintf("eof: file length %d*B%+d, final lexeme %s of %d bytes", k, d, lastLex.Kind, lastLex.Len)
					if !r.check(st, note) {
						return res
					}
					res.Key("eof", k, d, lastLex.Kind, min(lastLex.Len, 3))
					if d == 0 {
						res.Count("eof_on_half_boundary", 1)
					}
					if !gen.IsSeparator(lastLex.Kind) {
						res.Count("eof_inside_or_after_last_token", 1)
					}
				}
			}
		}
		// short files too: every final-newline style without padding
		for fin := 0; fin < 4; fin++ {
			for _, drop := range []bool{false, true} {
				st := gen.Style{SepSeed: uint64(c.Seed % (1 << 30)), FinalNL: fin, DropSemis: drop}
				lay := gen.Render(s, st)
				lay.Check(s)
				lastLex := lay.Lexemes[len(lay.Lexemes)-1]
				if !r.check(st, fmt.Sprintf("eof: short file, final lexeme %s of %d bytes", lastLex.Kind, lastLex.Len)) {
					return res
				}
				res.Key("eof-short", lastLex.Kind, min(lastLex.Len, 3))
				if !gen.IsSeparator(lastLex.Kind) {
					res.Count("eof_inside_or_after_last_token", 1)
				}
			}
		}
	}
	if c.Index%17 == 0 {
		res.Sample = map[string]any{"kind": c.Label, "mode": s.Mode, "baseline_text": string(baseLay.Text), "baseline_outcome": firstLines(base.spec, 6), "variants_evaluated": r.n}
	}
	return res
}

// signatureFree searches for a layout that puts the chosen byte of token tok at the target offset and
// in which no lexeme other than the first starts at k*B-1. It returns the first one found.
func signatureFree(s *gen.Spec, st gen.Style, tok, role, target, B int) (gen.Style, bool) {
	clean := func(l *gen.Layout) bool {
		for _, x := range l.Lexemes[1:] {
			if (x.Start+1)%B == 0 {
				return false
			}
		}
		return true
	}
	for j := 0; j < 10; j++ {
		alt := st
		alt.SepSeed = st.SepSeed + uint64(j)*7919
		alt.PadKind = []int{st.PadKind, 0, 4, 2, 1}[j%5]
		alt.LeadPad, alt.MidPad = 0, 0
		l0 := gen.Render(s, alt)
		if l0.Check(s) != nil {
			continue
		}
		at := -1
		for _, x := range l0.Lexemes {
			if x.Tok == tok {
				at = []int{x.Start, x.Start + x.Len - 1, x.Start + x.Len}[role]
			}
		}
		if at < 0 || target-at < 0 {
			continue
		}
		if st.MidPad > 0 {
			alt.MidGap, alt.MidPad = st.MidGap, target-at
			// the gap index refers to kept tokens, which may differ when semicolons are dropped differently
			gap := 0
			for gi, idx := range l0.Kept {
				if idx == tok {
					gap = gi
				}
			}
			if gap == 0 {
				alt.MidGap, alt.MidPad, alt.LeadPad = 0, 0, target-at
			} else {
				alt.MidGap = gap
			}
		} else {
			alt.LeadPad = target - at
		}
		l := gen.Render(s, alt)
		if l.Check(s) != nil {
			continue
		}
		// the byte must really be where it was asked for
		okPos := false
		for _, x := range l.Lexemes {
			if x.Tok == tok && []int{x.Start, x.Start + x.Len - 1, x.Start + x.Len}[role] == target {
				okPos = true
			}
		}
		if okPos && clean(l) {
			return alt, true
		}
	}
	return st, false
}

func firstLines(s string, n int) string {
	ls := strings.Split(s, "\n")
	if len(ls) > n {
		ls = ls[:n]
	}
	return strings.Join(ls, " | ")
}

// specFromText turns an existing text (a shipped fixture) into a token list through the
// independent tokenizer. Semicolons are kept as they are (none is marked removable).
func specFromText(b []byte) *gen.Spec {
	lex, bad := gen.Tokenize(b)
	if bad >= 0 {
		return nil
	}
	s := &gen.Spec{Mode: "fixture"}
	for _, l := range lex {
		if !gen.IsSeparator(l.Kind) {
			s.Toks = append(s.Toks, gen.Tok{Kind: l.Kind, Text: string(b[l.Start : l.Start+l.Len])})
		}
	}
	return s
}
