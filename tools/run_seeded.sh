#!/usr/bin/env bash
# Sensitivity test: every seeded property-breaking change must make its check exit 1.
# Usage: tools/run_seeded.sh [ID...]   (default: all of seeded/*)
set -u
cd "$(dirname "$0")/.."
IDS="${*:-$(ls seeded)}"
rc=0
for id in $IDS; do
  prop="$(python3 -c "import json;print(json.load(open('seeded/$id/meta.json'))['property'])")"
  expect="$(python3 -c "import json;print(json.load(open('seeded/$id/meta.json')).get('caught', True))")"
  if [ "$expect" = False ]; then echo "SKIPPED $id ($prop): recorded as not reliably caught (see meta.json)"; continue; fi
  out="$(tools/try_mutant.sh "$PWD/seeded/$id/patch.diff" "$prop" quick 2>&1)"
  code="$(echo "$out" | sed -n 's/^try_mutant: check .* exit=//p')"
  cls="$(echo "$out" | grep -m1 '^  class=' | sed 's/^  class=//')"
  if [ "$code" = 1 ]; then echo "CAUGHT  $id ($prop): $cls"; else echo "MISSED  $id ($prop): exit=$code"; rc=1; fi
done
exit $rc
