#!/usr/bin/env bash
# tools/try_mutant.sh <worktree-or-patch> <ID> [quick|thorough]
# Runs a check against a mutated copy of the repository WITHOUT touching /repo or the committed
# evidence: the patch is applied to a throw-away worktree (or an existing mutated worktree is used),
# evidence and replays go to /tmp/mut-out/<ID>/.
set -u
SRC="$1"; ID="$2"; TIER="${3:-quick}"
OUT="/tmp/mut-out/$ID"; mkdir -p "$OUT"
if [ -d "$SRC" ]; then
  WT="$SRC"; CLEAN=0
else
  WT="$(mktemp -d /tmp/mutwt-XXXXXX)"; rmdir "$WT"
  git -C /repo worktree add -q --detach "$WT" HEAD || exit 2
  git -C "$WT" apply "$SRC" || { echo "patch does not apply" >&2; git -C /repo worktree remove --force "$WT"; exit 2; }
  CLEAN=1
fi
VERIF_REPO="$WT" VERIF_EVIDENCE_DIR="$OUT" VERIF_REPLAY_DIR="$OUT" "$(dirname "$0")/../check" "$ID" "$TIER"
RC=$?
[ "$CLEAN" = 1 ] && git -C /repo worktree remove --force "$WT"
echo "try_mutant: check $ID $TIER exit=$RC"
exit $RC
