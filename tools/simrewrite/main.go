// Command simrewrite applies the mechanical source rewrites that create seams in a scratch copy
// of the repository (never in /repo itself):
//
//	simrewrite imports -root DIR -map old=new[,old=new...] PATH...   rewrite import paths (keeping the old package name as alias)
//	simrewrite main -in FILE -out FILE -pkg NAME                     turn package main / func main into an importable entry point
//
// Rewrites are textual splices at AST positions; everything else is preserved byte for byte.
package main

import (
	"flag"
	"fmt"
	"go/ast"
	"go/parser"
	"go/token"
	"os"
	"path"
	"path/filepath"
	"sort"
	"strconv"
	"strings"
)

func die(format string, a ...any) {
	fmt.Fprintf(os.Stderr, "simrewrite: "+format+"\n", a...)
	os.Exit(2)
}

type splice struct {
	start, end int
	text       string
}

func apply(src []byte, sp []splice) []byte {
	sort.Slice(sp, func(i, j int) bool { return sp[i].start > sp[j].start })
	for _, s := range sp {
		src = append(src[:s.start:s.start], append([]byte(s.text), src[s.end:]...)...)
	}
	return src
}

func goFiles(paths []string) []string {
	var out []string
	for _, p := range paths {
		filepath.Walk(p, func(f string, info os.FileInfo, err error) error {
			if err != nil {
				return nil
			}
			if info.IsDir() && (info.Name() == "zz_verif" || info.Name() == "testdata" || strings.HasPrefix(info.Name(), ".")) {
				return filepath.SkipDir
			}
			if !info.IsDir() && strings.HasSuffix(f, ".go") && !strings.HasSuffix(f, "_test.go") {
				out = append(out, f)
			}
			return nil
		})
	}
	sort.Strings(out)
	return out
}

func cmdImports(args []string) {
	fs := flag.NewFlagSet("imports", flag.ExitOnError)
	mp := fs.String("map", "", "old=new,...")
	fs.Parse(args)
	m := map[string]string{}
	for _, kv := range strings.Split(*mp, ",") {
		if kv == "" {
			continue
		}
		p := strings.SplitN(kv, "=", 2)
		if len(p) != 2 {
			die("bad -map entry %q", kv)
		}
		m[p[0]] = p[1]
	}
	total := 0
	for _, f := range goFiles(fs.Args()) {
		src, err := os.ReadFile(f)
		if err != nil {
			die("%v", err)
		}
		fset := token.NewFileSet()
		af, err := parser.ParseFile(fset, f, src, parser.ImportsOnly)
		if err != nil {
			die("%s: %v", f, err)
		}
		var sp []splice
		for _, is := range af.Imports {
			old, _ := strconv.Unquote(is.Path.Value)
			nw, ok := m[old]
			if !ok {
				continue
			}
			name := path.Base(old)
			if is.Name != nil {
				name = is.Name.Name
			}
			if name == "." || name == "_" {
				die("%s: cannot rewrite dot/blank import of %s", f, old)
			}
			sp = append(sp, splice{fset.Position(is.Pos()).Offset, fset.Position(is.End()).Offset, name + " " + strconv.Quote(nw)})
			fmt.Printf("import %s: %s -> %s (as %s)\n", f, old, nw, name)
			total++
		}
		if len(sp) > 0 {
			if err := os.WriteFile(f, apply(src, sp), 0o644); err != nil {
				die("%v", err)
			}
		}
	}
	fmt.Printf("imports rewritten: %d\n", total)
}

func cmdMain(args []string) {
	fs := flag.NewFlagSet("main", flag.ExitOnError)
	in := fs.String("in", "", "")
	out := fs.String("out", "", "")
	pkg := fs.String("pkg", "emergecli", "")
	fs.Parse(args)
	src, err := os.ReadFile(*in)
	if err != nil {
		die("%v", err)
	}
	fset := token.NewFileSet()
	af, err := parser.ParseFile(fset, *in, src, 0)
	if err != nil {
		die("%v", err)
	}
	if af.Name.Name != "main" {
		die("%s is not package main", *in)
	}
	sp := []splice{{fset.Position(af.Name.Pos()).Offset, fset.Position(af.Name.End()).Offset, *pkg}}
	found := 0
	for _, d := range af.Decls {
		if fd, ok := d.(*ast.FuncDecl); ok && fd.Recv == nil && fd.Name.Name == "main" {
			sp = append(sp, splice{fset.Position(fd.Name.Pos()).Offset, fset.Position(fd.Name.End()).Offset, "VerifMain"})
			found++
		}
	}
	if found != 1 {
		die("%s: expected exactly one func main, found %d", *in, found)
	}
	os.MkdirAll(filepath.Dir(*out), 0o755)
	if err := os.WriteFile(*out, apply(src, sp), 0o644); err != nil {
		die("%v", err)
	}
	fmt.Printf("main: %s -> %s (package %s, func VerifMain)\n", *in, *out, *pkg)
}

// cmdYield inserts scheduler yield points: at every function entry (declarations and literals)
// and before every statement that mentions a package-level variable of its own package.
func cmdYield(args []string) {
	fs := flag.NewFlagSet("yield", flag.ExitOnError)
	ctl := fs.String("ctl", "", "import path of the scheduler package")
	fs.Parse(args)
	files := goFiles(fs.Args())
	// package-level variables per directory
	globals := map[string]map[string]bool{}
	parsed := map[string]*ast.File{}
	fsets := map[string]*token.FileSet{}
	srcs := map[string][]byte{}
	for _, f := range files {
		src, err := os.ReadFile(f)
		if err != nil {
			die("%v", err)
		}
		fset := token.NewFileSet()
		af, err := parser.ParseFile(fset, f, src, parser.ParseComments)
		if err != nil {
			die("%s: %v", f, err)
		}
		parsed[f], fsets[f], srcs[f] = af, fset, src
		dir := filepath.Dir(f)
		if globals[dir] == nil {
			globals[dir] = map[string]bool{}
		}
		for _, d := range af.Decls {
			if gd, ok := d.(*ast.GenDecl); ok && gd.Tok == token.VAR {
				for _, sp := range gd.Specs {
					for _, n := range sp.(*ast.ValueSpec).Names {
						if n.Name != "_" {
							globals[dir][n.Name] = true
						}
					}
				}
			}
		}
	}
	site := 0
	total := 0
	for _, f := range files {
		af, fset, src := parsed[f], fsets[f], srcs[f]
		if af.Name.Name == "main" {
			continue
		}
		g := globals[filepath.Dir(f)]
		var sp []splice
		spawns := false
		off := func(p token.Pos) int { return fset.Position(p).Offset }
		mentions := func(n ast.Node) bool {
			found := false
			ast.Inspect(n, func(x ast.Node) bool {
				if _, isFn := x.(*ast.FuncLit); isFn {
					return false // the literal's own body gets its own yields
				}
				if id, ok := x.(*ast.Ident); ok && g[id.Name] {
					found = true
				}
				return !found
			})
			return found
		}
		var doList func(list []ast.Stmt)
		doList = func(list []ast.Stmt) {
			for _, st := range list {
				switch st.(type) {
				case *ast.DeclStmt, *ast.EmptyStmt:
					continue
				}
				if mentions(st) {
					site++
					// sites at package-level variable accesses are numbered from 1000000 (simsched.GlobalSiteBase)
					sp = append(sp, splice{off(st.Pos()), off(st.Pos()), fmt.Sprintf("zzsched.Yield(%d); ", 1000000+site)})
				}
			}
		}
		ast.Inspect(af, func(n ast.Node) bool {
			switch v := n.(type) {
			case *ast.FuncDecl:
				if v.Body != nil {
					site++
					sp = append(sp, splice{off(v.Body.Lbrace) + 1, off(v.Body.Lbrace) + 1, fmt.Sprintf(" zzsched.Yield(%d);", site)})
				}
			case *ast.FuncLit:
				site++
				sp = append(sp, splice{off(v.Body.Lbrace) + 1, off(v.Body.Lbrace) + 1, fmt.Sprintf(" zzsched.Yield(%d);", site)})
			case *ast.BlockStmt:
				doList(v.List)
			case *ast.CaseClause:
				doList(v.Body)
			case *ast.CommClause:
				doList(v.Body)
			case *ast.GoStmt:
				// Goroutines spawned by the code under test are not workers of the simulator: they
				// run under the Go scheduler (yield points they reach do nothing), and the scheduler
				// package is told to tell goroutines apart.
				spawns = true
				fmt.Printf("yield %s: go statement (goroutine mode: spawned goroutines run outside the simulator)\n", fset.Position(v.Pos()))
			case *ast.SelectStmt:
				fmt.Printf("yield %s: select statement (blocks for real; not a scheduling point)\n", fset.Position(v.Pos()))
			}
			return true
		})
		if len(sp) == 0 {
			continue
		}
		total += len(sp)
		src = apply(src, sp)
		if spawns {
			src = append(src, []byte("\nfunc init() { zzsched.GoroutineMode = true }\n")...)
		}
		po := fset.Position(af.Name.End()).Offset
		src = append(src[:po:po], append([]byte("\n\nimport zzsched "+strconv.Quote(*ctl)+"\n"), src[po:]...)...)
		if err := os.WriteFile(f, src, 0o644); err != nil {
			die("%v", err)
		}
		fmt.Printf("yield %s: %d points\n", f, len(sp))
	}
	fmt.Printf("yield points inserted: %d\n", total)
}

// cmdGoStmt puts every goroutine the code under test spawns behind a gate of the simulator:
//
//	go func(a T) { body }(x)   =>   zzgN := zzsimctl.NewGate(); go func(a T) { zzgN.Enter(); defer zzgN.Exit(); body }(x)
//	go f(x)                    =>   zzgN := zzsimctl.NewGate(); go func() { zzgN.Enter(); defer zzgN.Exit(); f(x) }()
//
// (the second form evaluates the arguments when the goroutine is released, not at the go statement;
// each such site is logged).
func cmdGoStmt(args []string) {
	fs := flag.NewFlagSet("gostmt", flag.ExitOnError)
	ctl := fs.String("ctl", "", "import path of the controller package")
	fs.Parse(args)
	total := 0
	for _, f := range goFiles(fs.Args()) {
		src, err := os.ReadFile(f)
		if err != nil {
			die("%v", err)
		}
		fset := token.NewFileSet()
		af, err := parser.ParseFile(fset, f, src, parser.ParseComments)
		if err != nil {
			die("%s: %v", f, err)
		}
		if af.Name.Name == "main" {
			continue
		}
		off := func(p token.Pos) int { return fset.Position(p).Offset }
		var sp []splice
		n := 0
		ast.Inspect(af, func(nd ast.Node) bool {
			gs, ok := nd.(*ast.GoStmt)
			if !ok {
				return true
			}
			n++
			g := fmt.Sprintf("zzg%d", n)
			sp = append(sp, splice{off(gs.Pos()), off(gs.Pos()), g + " := zzgatectl.NewGate(); "})
			if fl, ok := gs.Call.Fun.(*ast.FuncLit); ok {
				sp = append(sp, splice{off(fl.Body.Lbrace) + 1, off(fl.Body.Lbrace) + 1, " " + g + ".Enter(); defer " + g + ".Exit();"})
				fmt.Printf("gostmt %s:%d literal\n", f, fset.Position(gs.Pos()).Line)
			} else {
				call := string(src[off(gs.Call.Pos()):off(gs.Call.End())])
				sp = append(sp, splice{off(gs.Call.Pos()), off(gs.Call.End()), "func() { " + g + ".Enter(); defer " + g + ".Exit(); " + call + " }()"})
				fmt.Printf("gostmt %s:%d call (arguments evaluated at release)\n", f, fset.Position(gs.Pos()).Line)
			}
			return true
		})
		if len(sp) == 0 {
			continue
		}
		total += n
		src = apply(src, sp)
		po := fset.Position(af.Name.End()).Offset
		src = append(src[:po:po], append([]byte("\n\nimport zzgatectl "+strconv.Quote(*ctl)+"\n"), src[po:]...)...)
		if err := os.WriteFile(f, src, 0o644); err != nil {
			die("%v", err)
		}
	}
	fmt.Printf("go statements gated: %d\n", total)
}

func main() {
	if len(os.Args) < 2 {
		die("usage: simrewrite imports|main ...")
	}
	switch os.Args[1] {
	case "imports":
		cmdImports(os.Args[2:])
	case "main":
		cmdMain(os.Args[2:])
	case "yield":
		cmdYield(os.Args[2:])
	case "gostmt":
		cmdGoStmt(os.Args[2:])
	default:
		die("unknown command %q", os.Args[1])
	}
}
