module verif/simrewrite

go 1.23
