module verif/simrewrite

go 1.24.0
