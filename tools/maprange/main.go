// Command maprange rewrites every `for ... range m` over a map, in the packages it is pointed at,
// so that the iteration order is decided by the simulator (package simctl) instead of the Go
// runtime. It works on a scratch copy only and needs full type information (go/packages).
//
//	maprange -dir MODULE_ROOT -ctl IMPORT_PATH_OF_SIMCTL PATTERN...
//
// for k, v := range m {            for _, k := range simctl.Keys(m) {
//     body                   =>        v, zzok := m[k]; if !zzok { continue }
// }                                    body
//
// (snapshot the keys, look each one up when it is visited: one of the behaviours the Go
// specification allows for a map mutated during iteration). A range expression that is not a pure
// identifier/selector chain is iterated through simctl.Pairs (keys and values snapshotted once).
// Anything the tool cannot rewrite is an error (exit 2), never silently left to the runtime.
package main

import (
	"flag"
	"fmt"
	"go/ast"
	"go/token"
	"go/types"
	"os"
	"sort"
	"strings"

	"golang.org/x/tools/go/packages"
)

type splice struct {
	start, end int
	text       string
}

func die(format string, a ...any) {
	fmt.Fprintf(os.Stderr, "maprange: "+format+"\n", a...)
	os.Exit(2)
}

func pure(e ast.Expr) bool {
	switch v := e.(type) {
	case *ast.Ident:
		return true
	case *ast.SelectorExpr:
		return pure(v.X)
	case *ast.ParenExpr:
		return pure(v.X)
	case *ast.StarExpr:
		return pure(v.X)
	}
	return false
}

func main() {
	dir := flag.String("dir", ".", "module root")
	ctl := flag.String("ctl", "", "import path of the simctl package")
	flag.Parse()
	if *ctl == "" {
		die("-ctl required")
	}
	cfg := &packages.Config{
		Mode: packages.NeedName | packages.NeedFiles | packages.NeedSyntax | packages.NeedTypes | packages.NeedTypesInfo | packages.NeedCompiledGoFiles,
		Dir:  *dir,
	}
	pkgs, err := packages.Load(cfg, flag.Args()...)
	if err != nil {
		die("load: %v", err)
	}
	total := 0
	for _, pkg := range pkgs {
		if len(pkg.Errors) > 0 {
			die("package %s: %v", pkg.PkgPath, pkg.Errors[0])
		}
		if strings.Contains(pkg.PkgPath, "/zz_") {
			continue
		}
		for i, file := range pkg.Syntax {
			fname := pkg.CompiledGoFiles[i]
			if strings.HasSuffix(fname, "_test.go") {
				continue
			}
			src, err := os.ReadFile(fname)
			if err != nil {
				die("%v", err)
			}
			var sp []splice
			n := 0
			ast.Inspect(file, func(nd ast.Node) bool {
				rs, ok := nd.(*ast.RangeStmt)
				if !ok {
					return true
				}
				t := pkg.TypesInfo.TypeOf(rs.X)
				if t == nil {
					die("%s: no type for range expression", pkg.Fset.Position(rs.Pos()))
				}
				mt, ok := t.Underlying().(*types.Map)
				if !ok {
					// a type parameter whose core type is a map would end up here
					if tp, isTP := t.(*types.TypeParam); isTP {
						if _, isMap := tp.Underlying().(*types.Interface); isMap {
							// constraint interfaces: check core type
							if ct := coreType(tp); ct != nil {
								if _, m := ct.(*types.Map); m {
									die("%s: range over a type parameter with map core type is not supported", pkg.Fset.Position(rs.Pos()))
								}
							}
						}
					}
					return true
				}
				n++
				pos := pkg.Fset.Position(rs.Pos())
				off := func(p token.Pos) int { return pkg.Fset.Position(p).Offset }
				xsrc := string(src[off(rs.X.Pos()):off(rs.X.End())])
				id := fmt.Sprintf("%d", n)
				keyName, valName := "", ""
				if rs.Key != nil {
					keyName = string(src[off(rs.Key.Pos()):off(rs.Key.End())])
				}
				if rs.Value != nil {
					valName = string(src[off(rs.Value.Pos()):off(rs.Value.End())])
				}
				if keyName == "_" {
					keyName = ""
				}
				if valName == "_" {
					valName = ""
				}
				var head, prologue string
				zk, zv, zok := "zzk"+id, "zzv"+id, "zzok"+id
				if pure(rs.X) {
					head = fmt.Sprintf("for _, %s := range zzsimctl.Keys(%s) {", zk, xsrc)
					prologue = fmt.Sprintf(" %s, %s := %s[%s]; if !%s { continue }; _ = %s;", zv, zok, xsrc, zk, zok, zv)
				} else {
					head = fmt.Sprintf("for _, zzp%s := range zzsimctl.Pairs(%s) {", id, xsrc)
					prologue = fmt.Sprintf(" %s, %s := zzp%s.K, zzp%s.V; _, _ = %s, %s;", zk, zv, id, id, zk, zv)
				}
				op := ":="
				if rs.Tok == token.ASSIGN {
					op = "="
				}
				switch {
				case keyName != "" && valName != "":
					prologue += fmt.Sprintf(" %s, %s %s %s, %s;", keyName, valName, op, zk, zv)
				case keyName != "":
					prologue += fmt.Sprintf(" %s %s %s;", keyName, op, zk)
				case valName != "":
					prologue += fmt.Sprintf(" %s %s %s;", valName, op, zv)
				}
				// replace `for ... range X {` (up to and including the opening brace of the body)
				sp = append(sp, splice{off(rs.For), off(rs.Body.Lbrace) + 1, head + prologue})
				fmt.Printf("maprange %s:%d key=%s pure=%v\n", fname, pos.Line, mt.Key(), pure(rs.X))
				return true
			})
			if len(sp) == 0 {
				continue
			}
			total += len(sp)
			sort.Slice(sp, func(i, j int) bool { return sp[i].start > sp[j].start })
			for _, s := range sp {
				src = append(src[:s.start:s.start], append([]byte(s.text), src[s.end:]...)...)
			}
			// add the import right after the package clause
			fileOff := pkg.Fset.Position(file.Name.End()).Offset
			src = append(src[:fileOff:fileOff], append([]byte("\n\nimport zzsimctl "+fmt.Sprintf("%q", *ctl)+"\n"), src[fileOff:]...)...)
			if err := os.WriteFile(fname, src, 0o644); err != nil {
				die("%v", err)
			}
		}
	}
	fmt.Printf("map ranges rewritten: %d\n", total)
}

func coreType(tp *types.TypeParam) types.Type {
	iface, ok := tp.Constraint().Underlying().(*types.Interface)
	if !ok {
		return nil
	}
	var ct types.Type
	for i := 0; i < iface.NumEmbeddeds(); i++ {
		if u, ok := iface.EmbeddedType(i).(*types.Union); ok && u.Len() == 1 {
			ct = u.Term(0).Type().Underlying()
		}
	}
	return ct
}
