#!/usr/bin/env bash
# No-false-alarm regression: benign changes (behaviour the properties do not constrain) must leave
# the checks at exit 0. Usage: tools/run_benign.sh [all]
set -u
cd "$(dirname "$0")/.."
declare -A CHECKS=(
  [B1-header]="C16 C15 C19"
  [B2-wording]="C16 C14"
  [B3-buffer8k]="C13 C19 C18 C14"
  [B4-mkdirall]="C16"
  [B5-order]="C16 C15"
  [B6-bufio]="C14 C16"
  [Z-C13-refactor]="C13 C18 C14"
  [Z-C14-refactor]="C14 C16 C15"
  [Z-C15-refactor]="C15 C17 C19"
  [Z-C16-refactor]="C16 C15 C14"
  [Z-C17-refactor]="C17 C14"
  [Z-C18-refactor]="C18 C13 C14"
  [Z-C19-refactor]="C19 C15 C16"
  [Y-C13-feature]="C13 C14 C16 C15 C18 C17"
  [Y-C15-feature]="C15 C18 C13 C16 C14 C19 C17"
  [Y-C16-feature]="C16 C14 C15"
  [Y-C17-feature]="C17 C15 C14 C19"
  [Y-C19-feature]="C19 C15 C16"
)
rc=0
for id in $(ls benign | grep '\.diff$' | grep -v 'orig-tree' | sed 's/\.diff$//'); do
  for prop in ${CHECKS[$id]}; do
    out="$(tools/try_mutant.sh "$PWD/benign/$id.diff" "$prop" quick 2>&1)"
    code="$(echo "$out" | sed -n 's/^try_mutant: check .* exit=//p')"
    if [ "$code" = 0 ]; then echo "QUIET   $id / $prop"; else echo "ALARM   $id / $prop: exit=$code $(echo "$out" | grep -m1 '^  class=')"; rc=1; fi
  done
done
exit $rc
