#!/usr/bin/env bash
# Runs the quick tier of the given checks for a range of VERIF_SEED values on the unchanged tree and
# reports every run that does not exit 0. Usage: tools/run_seeds.sh FROM TO [IDs...]
set -u
cd "$(dirname "$0")/.."
FROM="$1"; TO="$2"; shift 2
IDS="${*:-C14 C16 C15 C18 C13 C19 C17}"
for seed in $(seq "$FROM" "$TO"); do
  export VERIF_SEED="$seed" VERIF_EVIDENCE_DIR=/tmp/seeds-out/$seed VERIF_REPLAY_DIR=/tmp/seeds-out/$seed
  mkdir -p "$VERIF_EVIDENCE_DIR"
  for id in $IDS; do
    out="$(./check "$id" quick 2>&1)"; rc=$?
    if [ "$rc" = 0 ]; then echo "ok    seed=$seed $id"; else echo "NONZERO seed=$seed $id exit=$rc"; echo "$out" | grep -a -v '^KNOWN-FINDING' | grep -a 'VIOLATION\|class=\|flaky\|inconclusive\|FAILED\|not run' | cut -c1-300 | head -8; fi
  done
done
