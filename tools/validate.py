#!/usr/bin/env python3
"""Validate MANIFEST.json and evidence files against the schemas (python3-vt has jsonschema)."""
import json, sys, glob
import jsonschema
ok = True
m = json.load(open('/verif/MANIFEST.json')) if len(sys.argv) < 2 or sys.argv[1] != 'evidence' else None
if m is not None:
    jsonschema.validate(m, json.load(open('/root/.vp/MANIFEST.schema.json')))
    print('MANIFEST ok:', [c['property_id'] for c in m['checks']])
es = json.load(open('/root/.vp/EVIDENCE.schema.json'))
for f in sorted(glob.glob('/verif/evidence/*.json')):
    try:
        jsonschema.validate(json.load(open(f)), es)
        print('ok', f)
    except Exception as e:
        ok = False
        print('INVALID', f, str(e)[:300])
sys.exit(0 if ok else 1)
