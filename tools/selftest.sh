#!/usr/bin/env bash
# Determinism self-test: the same VERIF_SEED must give the same per-case outcome digests whatever
# the number of worker processes and GOMAXPROCS. Usage: tools/selftest.sh [IDs...]
set -u
cd "$(dirname "$0")/.."
IDS="${*:-C13 C14 C15 C16 C18}"
OUT=/tmp/verif-selftest; rm -rf "$OUT"; mkdir -p "$OUT"
export VERIF_EVIDENCE_DIR="$OUT/ev" VERIF_REPLAY_DIR="$OUT/rp"
rc=0
for id in $IDS; do
  for seed in 1 7; do
    i=0
    for cfg in "16 16" "3 1" "7 4"; do
      set -- $cfg; i=$((i+1))
      VERIF_SEED=$seed GOMAXPROCS=$2 ./check "$id" quick -digest -workers "$1" 2>/dev/null | grep '^DIGEST' | sort -k2n > "$OUT/$id.$seed.$i.txt"
    done
    n=$(wc -l < "$OUT/$id.$seed.1.txt")
    if [ "$n" -eq 0 ]; then echo "selftest $id seed=$seed: no digests produced"; rc=2; continue; fi
    if cmp -s "$OUT/$id.$seed.1.txt" "$OUT/$id.$seed.2.txt" && cmp -s "$OUT/$id.$seed.1.txt" "$OUT/$id.$seed.3.txt"; then
      echo "selftest $id seed=$seed: $n case digests identical across 3 worker/GOMAXPROCS configurations"
    else
      echo "selftest $id seed=$seed: DIGESTS DIFFER"; diff "$OUT/$id.$seed.1.txt" "$OUT/$id.$seed.2.txt" | head -5; rc=2
    fi
  done
done
exit $rc
