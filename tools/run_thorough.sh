#!/usr/bin/env bash
# Runs every thorough check once (evidence and replays go to /tmp/thorough-out so that committed
# evidence is not overwritten by a background run). Usage: tools/run_thorough.sh [seed] [IDs...]
set -u
cd "$(dirname "$0")/.."
SEED="${1:-1}"; shift || true
IDS="${*:-C18 C16 C15 C14 C19 C13 C17}"
export VERIF_SEED="$SEED" VERIF_EVIDENCE_DIR=/tmp/thorough-out/$SEED VERIF_REPLAY_DIR=/tmp/thorough-out/$SEED
mkdir -p "$VERIF_EVIDENCE_DIR"
for id in $IDS; do
  start=$(date +%s)
  ./check "$id" thorough 2>&1 | grep -v '^KNOWN-FINDING' | grep 'VIOLATION\|class=\|^\[C.*evaluations\|FAILED\|flaky\|not run\|inconclusive'
  echo "== $id thorough seed=$SEED exit=${PIPESTATUS[0]} $(( $(date +%s) - start ))s"
done
